"""pyvc — forward symbolic executor / verification-condition generator for a stated
subset of Python, working directly on the ast of the real function (pyvc.extract).

Path enumeration is complete for loop-free code; loops over symbolic sequences are cut
with contract-supplied invariants (establish / preserve / use).  Every obligation is
`path-condition ⇒ goal`, discharged by z3 (then cvc5 on unknown) in pyvc.solve.

Anything outside the subset raises Unsupported — reported as UNDECIDED, never as a
violation and never silently skipped.
"""

from __future__ import annotations

import ast
import itertools
from dataclasses import dataclass, field

import z3

U = z3.DeclareSort("U")  # opaque Python objects
NONE_U = z3.Const("None!", U)
NOTHING_U = z3.Const("attrs.NOTHING!", U)
TRUE_U = z3.Const("True!", U)
FALSE_U = z3.Const("False!", U)
truthy_U = z3.Function("truthy", U, z3.BoolSort())
str_U = z3.Function("str", U, z3.StringSort())
int_U = z3.Function("int", U, z3.IntSort())
u_of_str = z3.Function("u_of_str", z3.StringSort(), U)
u_of_int = z3.Function("u_of_int", z3.IntSort(), U)

Path_U = z3.Function("Path", U, U)
unPath_U = z3.Function("unPath", U, U)
_u = z3.Const("u!ax", U)
_s = z3.Const("s!ax", z3.StringSort())
_i = z3.Const("i!ax", z3.IntSort())
# quantified background axioms, each keyed by the symbol that triggers it: an axiom is
# added to a query only if that symbol occurs in it (keeps sat answers decidable)
def _not_special(t):
    return z3.And(t != NONE_U, t != TRUE_U, t != FALSE_U, t != NOTHING_U)


TRIGGERED_AXIOMS = {
    "Path": z3.ForAll([_u], unPath_U(Path_U(_u)) == _u, patterns=[Path_U(_u)]),
    # injections are injective and never yield None / True / False / attrs.NOTHING
    "u_of_str": z3.ForAll([_s], z3.And(str_U(u_of_str(_s)) == _s, _not_special(u_of_str(_s))), patterns=[u_of_str(_s)]),
    "u_of_int": z3.ForAll([_i], z3.And(int_U(u_of_int(_i)) == _i, _not_special(u_of_int(_i))), patterns=[u_of_int(_i)]),
}
BACKGROUND = [
    z3.Not(truthy_U(NONE_U)),
    z3.Not(truthy_U(FALSE_U)),
    truthy_U(TRUE_U),
    z3.Distinct(NONE_U, NOTHING_U, TRUE_U, FALSE_U),
]


def symbols_of(exprs):
    seen, names = set(), set()
    stack = [e for e in exprs if is_z3(e)]
    while stack:
        t = stack.pop()
        if t.get_id() in seen:
            continue
        seen.add(t.get_id())
        if z3.is_quantifier(t):
            stack.append(t.body())
        elif z3.is_app(t):
            names.add(t.decl().name())
            stack.extend(t.children())
    return names


def uninterpreted_symbols(e):
    seen, names = set(), set()
    stack = [e]
    while stack:
        t = stack.pop()
        if t.get_id() in seen:
            continue
        seen.add(t.get_id())
        if z3.is_quantifier(t):
            stack.append(t.body())
        elif z3.is_app(t):
            if t.decl().kind() == z3.Z3_OP_UNINTERPRETED:
                names.add(t.decl().name())
            stack.extend(t.children())
    return names


def cone_of_influence(pc, goal):
    """hypotheses that share (transitively) an uninterpreted symbol with the goal.
    Dropping hypotheses only weakens the premises: a discharged sliced query implies the
    full one; slicing is therefore used for discharging only, never for refuting."""
    items = [(p, uninterpreted_symbols(p)) for p in pc if is_z3(p)]
    rel = set(uninterpreted_symbols(goal))
    chosen = [False] * len(items)
    changed = True
    while changed:
        changed = False
        for i, (p, syms) in enumerate(items):
            if not chosen[i] and (syms & rel or not syms):
                chosen[i] = True
                if syms - rel:
                    rel |= syms
                    changed = True
    return [p for (p, _), c in zip(items, chosen) if c]


def background_for(exprs):
    names = symbols_of(exprs)
    return BACKGROUND + [ax for k, ax in TRIGGERED_AXIOMS.items() if k in names]


class Unsupported(Exception):
    pass


# --------------------------------------------------------------------------- values


@dataclass
class OptV:
    isnone: object  # z3 Bool / python bool
    val: object


class SeqV:
    """immutable functional sequence: length + getter(index) -> value"""

    def __init__(self, length, getter, items=None):
        self.length, self.getter, self.items = length, getter, items

    @staticmethod
    def concrete(items):
        items = list(items)
        return SeqV(len(items), None, items)

    def get(self, i):
        if self.items is not None:
            if isinstance(i, int):
                return self.items[i]
            out = None
            for k in range(len(self.items) - 1, -1, -1):
                out = self.items[k] if out is None else ite(i == k, self.items[k], out)
            if out is None:
                # only reachable under a vacuous range guard (0 <= i < 0)
                return UNDEF
            return out
        return self.getter(i)

    def append(self, v):
        if self.items is not None:
            return SeqV.concrete(self.items + [v])
        n, old = self.length, self
        return SeqV(n + 1, lambda i: ite(i == n, v, old.get(i)))

    def concat(self, other):
        if self.items is not None and other.items is not None:
            return SeqV.concrete(self.items + other.items)
        n, a, b = self.length, self, other
        if isinstance(n, int) and n == 0:
            return other
        return SeqV(lift(n) + lift(other.length), lambda i: ite(lift(i) < n, a.get(i), b.get(lift(i) - n)))

    def insert_at(self, p, v):
        n, old = self.length, self
        return SeqV(n + 1, lambda i: ite(i < p, old.get(i), ite(i == p, v, old.get(i - 1))))

    def map(self, f):
        if self.items is not None:
            return SeqV.concrete([f(x) for x in self.items])
        old = self
        return SeqV(self.length, lambda i: f(old.get(i)))

    def slice_from(self, k):
        old = self
        return SeqV(self.length - k, lambda i: old.get(i + k))

    def slice_to(self, k):
        return SeqV(k, self.getter if self.items is None else (lambda i: self.get(i)))


@dataclass
class Ref:
    n: int


class UndefV:
    """element of an empty concrete list read at a symbolic index: only reachable under a
    vacuous range guard (0 <= i < 0); every observation of it is an arbitrary constant"""

    def __repr__(self):
        return "<undef>"


UNDEF = UndefV()


@dataclass
class SeqSpec:
    length: object
    getter: object


@dataclass
class LazyComp:
    node: object
    g: object
    seq: object
    env: dict
    _len: object = None


@dataclass
class HList:
    seq: SeqV


@dataclass
class HDict:
    items: dict  # concrete keys -> values
    sym: object = None  # or symbolic: function key->value (python callable), domain predicate


@dataclass
class ExcV:
    cls: str | None  # None = some unknown subclass of Exception
    args: tuple = ()
    tag: object = None  # z3 U const identifying the exception object


@dataclass
class ClassV:
    name: str


@dataclass
class GlobalV:
    dotted: str


@dataclass
class FuncV:
    node: ast.AST
    env: dict
    name: str = "<lambda>"


@dataclass
class BoundV:
    recv: object
    name: str
    recv_src: str


@dataclass
class Ev:
    name: str
    args: tuple
    kwargs: dict
    ret: object = None
    raised: bool = False
    label: str = ""
    snapshot: dict = field(default_factory=dict)  # explicit attribute writes visible at the call


EXC_PARENTS = {
    "BaseException": None,
    "Exception": "BaseException",
    "ValueError": "Exception",
    "TypeError": "Exception",
    "RuntimeError": "Exception",
    "NotImplementedError": "RuntimeError",
    "LookupError": "Exception",
    "KeyError": "LookupError",
    "IndexError": "LookupError",
    "AttributeError": "Exception",
    "StopIteration": "Exception",
    "OSError": "Exception",
    "FileNotFoundError": "OSError",
    "FileExistsError": "OSError",
    "PermissionError": "OSError",
    "EOFError": "Exception",
    "AssertionError": "Exception",
    "pickle.PickleError": "Exception",
    "pickle.UnpicklingError": "pickle.PickleError",
    "sp.CalledProcessError": "Exception",
    "Timeout": "Exception",
    "KeyboardInterrupt": "BaseException",
}


def exc_isinstance(cls, handler):
    """True / False / None (unknown) — is an exception of class `cls` caught by `handler`"""
    if cls is None:
        if handler in ("Exception", "BaseException"):
            return True
        return None
    c = cls
    while c is not None:
        if c == handler:
            return True
        c = EXC_PARENTS.get(c)
    return False


def is_z3(v):
    return isinstance(v, z3.ExprRef)


def canon_name(t):
    """self!0 -> 'self'; attr.hooks:U(self!0) -> 'self.hooks'; anything else -> None"""
    try:
        if z3.is_const(t) and t.decl().kind() == z3.Z3_OP_UNINTERPRETED:
            nm = t.decl().name()
            return nm.split("!")[0] if "!" in nm and not nm.startswith(("ret.", "exc", "global:", "class:")) else None
        if z3.is_app(t) and t.num_args() == 1 and t.decl().name().startswith("attr."):
            inner = canon_name(t.arg(0))
            if inner is None:
                return None
            return f"{inner}.{t.decl().name()[5:].split(':')[0]}"
    except Exception:
        return None
    return None


def lift(v):
    """python constant -> z3 term where possible"""
    if is_z3(v):
        return v
    if isinstance(v, bool):
        return z3.BoolVal(v)
    if isinstance(v, int):
        return z3.IntVal(v)
    if isinstance(v, str):
        return z3.StringVal(v)
    return v


def to_U(v):
    if is_z3(v):
        if v.sort() == U:
            return v
        if v.sort() == z3.StringSort():
            return u_of_str(v)
        if v.sort() == z3.IntSort():
            return u_of_int(v)
        if v.sort() == z3.BoolSort():
            return z3.If(v, TRUE_U, FALSE_U)
    if v is None:
        return NONE_U
    if v is True:
        return TRUE_U
    if v is False:
        return FALSE_U
    if isinstance(v, str):
        return u_of_str(z3.StringVal(v))
    if isinstance(v, int):
        return u_of_int(z3.IntVal(v))
    if isinstance(v, bytes):
        return z3.Const(f"bytes:{v.hex()}", U)
    if isinstance(v, float):
        return z3.Const(f"float:{v!r}", U)
    if isinstance(v, tuple):
        comps = [to_U(x) for x in v]
        if not comps:
            return z3.Const("tuple0", U)
        return z3.Function(f"tuple{len(comps)}", *([U] * len(comps)), U)(*comps)
    if isinstance(v, LazyComp):
        return z3.Const(f"comprehension!{id(v)}", U)  # opaque: nothing is assumed about it
    if isinstance(v, Ref):
        return z3.Const(f"ref!{v.n}", U)
    if isinstance(v, GlobalV):
        return z3.Const(f"global:{v.dotted}", U)
    if isinstance(v, ClassV):
        return z3.Const(f"class:{v.name}", U)
    if isinstance(v, ExcV) and v.tag is not None:
        return v.tag
    raise Unsupported(f"cannot inject {type(v).__name__} into U")


def ite(c, a, b):
    if c is True:
        return a
    if c is False:
        return b
    if a is b:
        return a
    if isinstance(a, UndefV):
        return b
    if isinstance(b, UndefV):
        return a
    if isinstance(a, tuple) and isinstance(b, tuple) and len(a) == len(b):
        return tuple(ite(c, x, y) for x, y in zip(a, b))
    if isinstance(a, OptV) or isinstance(b, OptV):
        a2 = a if isinstance(a, OptV) else (OptV(True, b.val) if a is None else OptV(False, a))
        b2 = b if isinstance(b, OptV) else (OptV(True, a.val) if b is None else OptV(False, b))
        return OptV(ite(c, a2.isnone, b2.isnone), ite(c, a2.val, b2.val))
    if isinstance(a, SeqV) and isinstance(b, SeqV):
        return SeqV(ite(c, a.length, b.length), lambda i: ite(c, a.get(i), b.get(i)))
    la, lb = lift(a), lift(b)
    if is_z3(la) and is_z3(lb):
        if la.sort() != lb.sort():
            la, lb = to_U(la), to_U(lb)
        return z3.If(c, la, lb)
    if not is_z3(a) and not is_z3(b) and type(a) is type(b) and a == b:
        return a
    try:
        return z3.If(c, to_U(a), to_U(b))
    except Unsupported:
        raise Unsupported(f"cannot merge {type(a).__name__} and {type(b).__name__}")


def eq(a, b):
    """Python `==` / `is` on modelled values -> python bool or z3 Bool"""
    if isinstance(a, UndefV) or isinstance(b, UndefV):
        return False
    if isinstance(a, OptV) or isinstance(b, OptV):
        if a is None:
            return b.isnone
        if b is None:
            return a.isnone
        if isinstance(a, OptV) and isinstance(b, OptV):
            return z3.Or(z3.And(a.isnone, b.isnone), z3.And(z3.Not(a.isnone), z3.Not(b.isnone), eq(a.val, b.val)))
        o, x = (a, b) if isinstance(a, OptV) else (b, a)
        return z3_and(z3_not(o.isnone), eq(o.val, x))
    if isinstance(a, tuple) and isinstance(b, tuple):
        if len(a) != len(b):
            return False
        return z3_and(*[eq(x, y) for x, y in zip(a, b)])
    if isinstance(a, ClassV) and isinstance(b, ClassV):
        return a.name == b.name
    la, lb = lift(a), lift(b)
    if is_z3(la) and is_z3(lb):
        if la.sort() != lb.sort():
            try:
                la, lb = to_U(la), to_U(lb)
            except Unsupported:
                return False
        return la == lb
    if is_z3(la) or is_z3(lb):
        try:
            return to_U(la) == to_U(lb)
        except Unsupported:
            raise Unsupported(f"eq of {type(a).__name__} and {type(b).__name__}")
    if isinstance(a, (Ref, SeqV)) or isinstance(b, (Ref, SeqV)):
        raise Unsupported("list equality")
    return a == b


def z3_and(*xs):
    xs = [x for x in xs if x is not True]
    if any(x is False for x in xs):
        return False
    if not xs:
        return True
    return z3.And(*xs) if len(xs) > 1 else xs[0]


def z3_or(*xs):
    xs = [x for x in xs if x is not False]
    if any(x is True for x in xs):
        return True
    if not xs:
        return False
    return z3.Or(*xs) if len(xs) > 1 else xs[0]


def z3_not(x):
    if isinstance(x, bool):
        return not x
    return z3.Not(x)


def implies(a, b):
    return z3_or(z3_not(a), b)


# --------------------------------------------------------------------------- state


class St:
    def __init__(self):
        self.env = {}
        self.pc = []
        self.heap = {}
        self.fields = {}  # (objkey, attr) -> value  (explicit attribute writes)
        self.trace = []
        self.decisions = []
        self.ghost = {}

    def copy(self):
        s = St()
        s.env = dict(self.env)
        s.pc = list(self.pc)
        s.heap = {k: (HList(v.seq) if isinstance(v, HList) else HDict(dict(v.items), v.sym)) for k, v in self.heap.items()}
        s.fields = dict(self.fields)
        s.trace = list(self.trace)
        s.decisions = list(self.decisions)
        s.ghost = dict(self.ghost)
        return s


@dataclass
class Out:
    kind: str  # next | return | raise | break | continue
    val: object = None


@dataclass
class Obligation:
    clause: str
    role: str  # property:<id> | auxiliary | safety
    pc: list
    goal: object
    label: str = ""
    where: str = ""


class Engine:
    """one Engine per verified function"""

    def __init__(self, fn, contract):
        self.fn = fn
        self.c = contract
        self.counter = itertools.count()
        self.obligations = []
        self.paths = []
        self.feas = z3.Solver()
        self.feas.set("timeout", 2000)
        self.if_ord = {}
        self.loop_ord = {}
        n_if = n_loop = 0
        def preorder(n):
            yield n
            for ch in ast.iter_child_nodes(n):
                yield from preorder(ch)

        for sub in preorder(fn.node):  # source order
            if isinstance(sub, (ast.If, ast.IfExp)):
                self.if_ord[id(sub)] = n_if
                n_if += 1
            if isinstance(sub, (ast.For, ast.While, ast.AsyncFor)):
                self.loop_ord[id(sub)] = n_loop
                n_loop += 1
        self.heap_n = itertools.count()
        self.used_trusted = set()
        self.len_consts = []  # symbolic sequence lengths (for scope-bounded counterexample search)

    # ---- helpers
    def fresh(self, name, sort):
        return z3.Const(f"{name}!{next(self.counter)}", sort)

    def fresh_kind(self, kind, name):
        """symbolic value of a declared kind"""
        if kind == "Int":
            return self.fresh(name, z3.IntSort())
        if kind == "Bool":
            return self.fresh(name, z3.BoolSort())
        if kind == "Str":
            return self.fresh(name, z3.StringSort())
        if kind == "U":
            return self.fresh(name, U)
        if isinstance(kind, tuple) and kind[0] == "Opt":
            return OptV(self.fresh(name + ".isnone", z3.BoolSort()), self.fresh_kind(kind[1], name + ".val"))
        if isinstance(kind, tuple) and kind[0] == "Tup":
            return tuple(self.fresh_kind(k, f"{name}.{i}") for i, k in enumerate(kind[1:]))
        if isinstance(kind, tuple) and kind[0] == "Seq":
            n = self.fresh(name + ".len", z3.IntSort())
            self.len_consts.append(n)
            return SeqSpec(n, self._fresh_indexed(kind[1], name, []))
        raise Unsupported(f"kind {kind}")

    def _fresh_indexed(self, kind, name, _):
        uid = next(self.counter)

        def leaf(sort, suffix=""):
            f = z3.Function(f"{name}{suffix}!{uid}", z3.IntSort(), sort)
            return lambda i: f(lift(i))

        if kind == "Int":
            return leaf(z3.IntSort())
        if kind == "Bool":
            return leaf(z3.BoolSort())
        if kind == "Str":
            return leaf(z3.StringSort())
        if kind == "U":
            return leaf(U)
        if isinstance(kind, tuple) and kind[0] == "Opt":
            fn_, fv = leaf(z3.BoolSort(), ".isnone"), self._fresh_indexed(kind[1], name + ".val", [])
            return lambda i: OptV(fn_(i), fv(i))
        if isinstance(kind, tuple) and kind[0] == "Tup":
            fs = [self._fresh_indexed(k, f"{name}.{j}", []) for j, k in enumerate(kind[1:])]
            return lambda i: tuple(f(i) for f in fs)
        raise Unsupported(f"indexed kind {kind}")

    def new_list(self, st, seq):
        n = next(self.heap_n)
        st.heap[n] = HList(seq)
        return Ref(n)

    def new_dict(self, st, items=None, sym=None):
        n = next(self.heap_n)
        st.heap[n] = HDict(dict(items or {}), sym)
        return Ref(n)

    def materialize(self, st, v):
        """turn fresh_kind results containing sequences into heap lists"""
        if isinstance(v, SeqSpec):
            st.pc.append(v.length >= 0)
            return self.new_list(st, SeqV(v.length, v.getter))
        if isinstance(v, tuple):
            return tuple(self.materialize(st, x) for x in v)
        return v

    def feasible(self, st, extra=None):
        self.feas.push()
        try:
            exprs = [p for p in st.pc if p is not True] + ([extra] if extra is not None and extra is not True else [])
            for b in background_for(exprs):
                self.feas.add(b)
            for p in exprs:
                self.feas.add(p)
            r = self.feas.check()
            return r != z3.unsat
        finally:
            self.feas.pop()

    def truthy(self, st, v):
        if isinstance(v, bool) or v is None or isinstance(v, (int, str, bytes)):
            return bool(v)
        if isinstance(v, float):
            return bool(v)
        if is_z3(v):
            s = v.sort()
            if s == z3.BoolSort():
                return v
            if s == z3.IntSort():
                return v != 0
            if s == z3.StringSort():
                return z3.Length(v) > 0
            if s == U:
                return truthy_U(v)
        if isinstance(v, OptV):
            return z3_and(z3_not(v.isnone), self.truthy(st, v.val))
        if isinstance(v, tuple):
            return len(v) > 0
        if isinstance(v, Ref):
            h = st.heap[v.n]
            if isinstance(h, HList):
                ln = h.seq.length
                return ln > 0
            if isinstance(h, HDict):
                if h.sym is None:
                    return len(h.items) > 0
                raise Unsupported("truthiness of symbolic dict")
        if isinstance(v, SeqV):
            return v.length > 0
        if isinstance(v, (ExcV, ClassV, FuncV, GlobalV, BoundV)):
            return True
        if isinstance(v, UndefV):
            return False
        if isinstance(v, LazyComp):
            from pyvc.builtins_ import lazy_len

            return lift(lazy_len(self, st, v)) > 0
        raise Unsupported(f"truthiness of {type(v).__name__}")

    def oblige(self, st, clause, goal, role="auxiliary", where=""):
        self.obligations.append(Obligation(clause, role, list(st.pc), goal, "/".join(st.decisions), where))

    def fork(self, st, cond, label):
        """split on a (possibly symbolic) boolean; returns [(st, bool)] feasible sides"""
        if cond is True or cond is False:
            return [(st, cond)]
        if z3.is_true(cond):
            return [(st, True)]
        if z3.is_false(cond):
            return [(st, False)]
        out = []
        for side in (True, False):
            c = cond if side else z3.Not(cond)
            if self.feasible(st, c):
                s2 = st.copy()
                s2.pc.append(c)
                s2.decisions.append(f"{label}:{'T' if side else 'F'}")
                out.append((s2, side))
        return out

    # ------------------------------------------------------------------ statements
    def exec_block(self, stmts, st):
        active = [st]
        results = []
        for stmt in stmts:
            nxt = []
            for s in active:
                for s2, out in self.exec_stmt(stmt, s):
                    if out.kind == "next":
                        nxt.append(s2)
                    else:
                        results.append((s2, out))
            active = nxt
            if not active:
                break
        results.extend((s, Out("next")) for s in active)
        return results

    def exec_stmt(self, node, st):
        m = getattr(self, "s_" + type(node).__name__, None)
        if m is None:
            raise Unsupported(f"statement {type(node).__name__} at line {node.lineno}")
        return m(node, st)

    def _raise_out(self, s, e):
        return (s, Out("raise", e))

    def s_Pass(self, node, st):
        return [(st, Out("next"))]

    def s_Import(self, node, st):
        for a in node.names:
            st.env[(a.asname or a.name).split(".")[0]] = GlobalV(a.name if a.asname else a.name.split(".")[0])
        return [(st, Out("next"))]

    def s_ImportFrom(self, node, st):
        for a in node.names:
            st.env[a.asname or a.name] = GlobalV(a.name)
        return [(st, Out("next"))]

    def s_Expr(self, node, st):
        if isinstance(node.value, ast.Constant):
            return [(st, Out("next"))]
        if isinstance(node.value, ast.Call):
            f = node.value.func
            if isinstance(f, ast.Attribute) and isinstance(f.value, ast.Name) and f.value.id == "logger":
                # the logging call itself is a no-op that does not raise (assumption), but its ARGUMENTS are evaluated when
                # they contain a call or a read of an attribute declared effectful (a property with side effects)
                args = list(node.value.args) + [k.value for k in node.value.keywords]
                effectful = any(
                    isinstance(n, ast.Call) or (isinstance(n, ast.Attribute) and (self.c.attrs.get(n.attr) or {}).get("effect"))
                    for a in args
                    for n in ast.walk(a)
                )
                if not effectful:
                    return [(st, Out("next"))]
                res = []
                for s, vals, e in self.eval_seq(args, st):
                    res.append(self._raise_out(s, e) if e else (s, Out("next")))
                return res
        res = []
        for s, v, e in self.eval(node.value, st):
            res.append(self._raise_out(s, e) if e else (s, Out("next")))
        return res

    def s_Return(self, node, st):
        if node.value is None:
            return [(st, Out("return", None))]
        return [self._raise_out(s, e) if e else (s, Out("return", v)) for s, v, e in self.eval(node.value, st)]

    def s_Raise(self, node, st):
        if node.exc is None:
            cur = st.env.get("__cur_exc__")
            if cur is None:
                raise Unsupported("bare raise outside handler")
            return [(st, Out("raise", cur))]
        res = []
        for s, v, e in self.eval(node.exc, st):
            if e:
                res.append(self._raise_out(s, e))
            elif isinstance(v, ExcV):
                res.append((s, Out("raise", v)))
            elif isinstance(v, ClassV):
                res.append((s, Out("raise", ExcV(v.name))))
            else:
                raise Unsupported("raise of non-exception value")
        return res

    def s_Assert(self, node, st):
        res = []
        for s, v, e in self.eval(node.test, st):
            if e:
                res.append(self._raise_out(s, e))
                continue
            for s2, side in self.fork(s, self.truthy(s, v), f"assert@{self._rel(node)}"):
                res.append((s2, Out("next")) if side else (s2, Out("raise", ExcV("AssertionError"))))
        return res

    def _rel(self, node):
        return getattr(node, "lineno", 0) - self.fn.lineno

    def s_Assign(self, node, st):
        res = []
        for s, v, e in self.eval(node.value, st):
            if e:
                res.append(self._raise_out(s, e))
                continue
            outs = [(s, None)]
            for tgt in node.targets:
                nouts = []
                for s1, e1 in outs:
                    if e1:
                        nouts.append((s1, e1))
                    else:
                        nouts.extend(self.assign(tgt, v, s1))
                outs = nouts
            for s1, e1 in outs:
                res.append(self._raise_out(s1, e1) if e1 else (s1, Out("next")))
        return res

    def s_AnnAssign(self, node, st):
        if node.value is None:
            return [(st, Out("next"))]
        fake = ast.Assign(targets=[node.target], value=node.value, lineno=node.lineno)
        return self.s_Assign(fake, st)

    def s_AugAssign(self, node, st):
        load = ast.parse(ast.unparse(node.target), mode="eval").body
        binop = ast.BinOp(left=load, op=node.op, right=node.value)
        ast.copy_location(binop, node)
        ast.fix_missing_locations(binop)
        # list += list mutates in place
        fake = ast.Assign(targets=[node.target], value=binop, lineno=node.lineno)
        return self.s_Assign(fake, st)

    def assign(self, tgt, v, st):
        """-> [(st, exc|None)]"""
        if isinstance(tgt, ast.Name):
            st.env[tgt.id] = v
            return [(st, None)]
        if isinstance(tgt, (ast.Tuple, ast.List)):
            vals = self.unpack(st, v, len(tgt.elts))
            outs = [(st, None)]
            for t, x in zip(tgt.elts, vals):
                nouts = []
                for s1, e1 in outs:
                    nouts.extend([(s1, e1)] if e1 else self.assign(t, x, s1))
                outs = nouts
            return outs
        if isinstance(tgt, ast.Attribute):
            out = []
            for s, o, e in self.eval(tgt.value, st):
                if e:
                    out.append((s, e))
                    continue
                if not (is_z3(o) and o.sort() == U):
                    raise Unsupported(f"attribute store on {type(o).__name__}")
                s.fields[(o.sexpr(), tgt.attr)] = v
                s.trace.append(Ev("setattr", (o, tgt.attr, v), {}, label=ast.unparse(tgt)))
                out.append((s, None))
            return out
        if isinstance(tgt, ast.Subscript):
            out = []
            for s, o, e in self.eval(tgt.value, st):
                if e:
                    out.append((s, e))
                    continue
                for s2, k, e2 in self.eval(tgt.slice, s):
                    if e2:
                        out.append((s2, e2))
                        continue
                    out.extend(self.setitem(s2, o, k, v, tgt))
            return out
        raise Unsupported(f"assignment target {type(tgt).__name__}")

    def setitem(self, st, o, k, v, node):
        if isinstance(o, Ref) and isinstance(st.heap[o.n], HDict):
            h = st.heap[o.n]
            if h.sym is None and not is_z3(k):
                h.items[k] = v
                return [(st, None)]
            if h.sym is None and is_z3(k) and not h.items:
                # first symbolic key into an empty concrete dict
                h.sym = ("store", [(k, v)])
                return [(st, None)]
            if h.sym is not None and h.sym[0] == "store":
                h.sym = ("store", h.sym[1] + [(k, v)])
                return [(st, None)]
            raise Unsupported("symbolic dict store")
        if is_z3(o) and o.sort() == U:
            st.trace.append(Ev("setitem", (o, k, v), {}, label=ast.unparse(node)))
            return [(st, None)]
        raise Unsupported(f"subscript store on {type(o).__name__}")

    def unpack(self, st, v, n):
        if isinstance(v, tuple):
            if len(v) != n:
                raise Unsupported("unpack arity mismatch")
            return list(v)
        if isinstance(v, Ref) and isinstance(st.heap[v.n], HList) and st.heap[v.n].seq.items is not None:
            it = st.heap[v.n].seq.items
            if len(it) != n:
                raise Unsupported("unpack arity mismatch")
            return list(it)
        if is_z3(v) and v.sort() == U:
            # opaque tuple: components are uninterpreted projections
            return [z3.Function(f"item{i}", U, U)(v) for i in range(n)]
        raise Unsupported(f"unpack of {type(v).__name__}")

    def s_If(self, node, st):
        res = []
        for s, v, e in self.eval(node.test, st):
            if e:
                res.append(self._raise_out(s, e))
                continue
            for s2, side in self.fork(s, self.truthy(s, v), f"if{self.if_ord.get(id(node), '?')}"):
                res.extend(self.exec_block(node.body if side else node.orelse, s2))
        return res

    def s_FunctionDef(self, node, st):
        st.env[node.name] = FuncV(node, st.env, node.name)
        return [(st, Out("next"))]

    def s_Try(self, node, st):
        res = []
        for s, out in self.exec_block(node.body, st):
            if out.kind == "raise":
                res.extend(self._handlers(node, s, out.val))
            elif out.kind == "next" and node.orelse:
                res.extend(self.exec_block(node.orelse, s))
            else:
                res.append((s, out))
        if not node.finalbody:
            return res
        final = []
        for s, out in res:
            for s2, out2 in self.exec_block(node.finalbody, s):
                # finally completing normally re-instates the pending outcome
                final.append((s2, out if out2.kind == "next" else out2))
        return final

    def _handlers(self, node, st, exc):
        """dispatch a raised exception over the except clauses"""
        res = []
        pending = [st]
        for h in node.handlers:
            nxt = []
            for s in pending:
                names = self._handler_names(h, s)
                verdicts = [exc_isinstance(exc.cls, n) for n in names]
                if any(v is True for v in verdicts):
                    sides = [(s, True)]
                elif all(v is False for v in verdicts):
                    sides = [(s, False)]
                else:
                    b = self.fresh(f"isinstance_{'_'.join(names)}", z3.BoolSort())
                    sides = self.fork(s, b, f"except@{self._rel(h)}")
                for s2, caught in sides:
                    if caught:
                        s2 = s2 if s2 is not s else s2
                        saved = s2.env.get("__cur_exc__")
                        s2.env["__cur_exc__"] = exc
                        if h.name:
                            s2.env[h.name] = exc
                        for s3, o3 in self.exec_block(h.body, s2):
                            s3.env["__cur_exc__"] = saved
                            res.append((s3, o3))
                    else:
                        nxt.append(s2)
            pending = nxt
        res.extend((s, Out("raise", exc)) for s in pending)
        return res

    def _handler_names(self, h, st):
        if h.type is None:
            return ["BaseException"]
        elts = h.type.elts if isinstance(h.type, ast.Tuple) else [h.type]
        return [ast.unparse(e) for e in elts]

    def s_With(self, node, st):
        return self._with(node, st, 0)

    s_AsyncWith = s_With

    def _with(self, node, st, idx):
        if idx == len(node.items):
            return self.exec_block(node.body, st)
        item = node.items[idx]
        res = []
        for s, m, e in self.eval(item.context_expr, st):
            if e:
                res.append(self._raise_out(s, e))
                continue
            label = ast.unparse(item.context_expr)
            # __enter__: an effect that may raise
            for s1, v1, e1 in self.effect(s, "__enter__", (m,), {}, label, may_raise=self.c.with_enter_may_raise):
                if e1:
                    res.append(self._raise_out(s1, e1))
                    continue
                if item.optional_vars is not None:
                    # __enter__ is assumed to return the manager itself (files, locks)
                    outs = self.assign(item.optional_vars, m, s1)
                else:
                    outs = [(s1, None)]
                for s2, e2 in outs:
                    if e2:
                        res.append(self._raise_out(s2, e2))
                        continue
                    for s3, o3 in self._with(node, s2, idx + 1):
                        s3.trace.append(Ev("__exit__", (m,), {}, label=label))
                        res.append((s3, o3))
        return res

    def s_For(self, node, st):
        res = []
        for s, it, e in self.eval(node.iter, st):
            if e:
                res.append(self._raise_out(s, e))
                continue
            seq = self.as_seq(s, it)
            if seq.items is not None:
                res.extend(self._for_concrete(node, s, seq.items))
            else:
                res.extend(self._for_symbolic(node, s, seq))
        return res

    def _for_concrete(self, node, st, items):
        active = [st]
        res = []
        for x in items:
            nxt = []
            for s in active:
                outs = self.assign(node.target, x, s)
                for s1, e1 in outs:
                    if e1:
                        res.append(self._raise_out(s1, e1))
                        continue
                    for s2, o in self.exec_block(node.body, s1):
                        if o.kind in ("next", "continue"):
                            nxt.append(s2)
                        elif o.kind == "break":
                            res.append((s2, Out("next")))
                        else:
                            res.append((s2, o))
            active = nxt
        for s in active:
            if node.orelse:
                res.extend(self.exec_block(node.orelse, s))
            else:
                res.append((s, Out("next")))
        return res

    def modified_names(self, body):
        names, mutated = set(), set()
        for stmt in body:
            for sub in ast.walk(stmt):
                if isinstance(sub, ast.Name) and isinstance(sub.ctx, ast.Store):
                    names.add(sub.id)
                if isinstance(sub, ast.Call) and isinstance(sub.func, ast.Attribute) and isinstance(sub.func.value, ast.Name):
                    if sub.func.attr in ("append", "insert", "remove", "pop", "extend", "sort", "update", "add", "clear", "setdefault"):
                        mutated.add(sub.func.value.id)
                if isinstance(sub, ast.Call) and ast.unparse(sub.func) in ("bisect.insort",) and sub.args and isinstance(sub.args[0], ast.Name):
                    mutated.add(sub.args[0].id)
                if isinstance(sub, ast.Subscript) and isinstance(sub.ctx, ast.Store) and isinstance(sub.value, ast.Name):
                    mutated.add(sub.value.id)
        return names, mutated

    def havoc(self, st, names, mutated, tag):
        for n in sorted(names):
            if n in st.env:
                st.env[n] = self.fresh_like(st, st.env[n], f"{n}@{tag}")
        for n in sorted(mutated):
            v = st.env.get(n)
            if isinstance(v, Ref) and isinstance(st.heap[v.n], HList):
                old = st.heap[v.n].seq
                st.heap[v.n] = HList(self.fresh_like_seq(st, old, f"{n}@{tag}"))
            elif isinstance(v, Ref):
                # a dict mutated in a loop becomes an arbitrary opaque mapping
                st.env[n] = self.fresh(f"{n}@{tag}", U)

    def fresh_like(self, st, v, name):
        if is_z3(v):
            return self.fresh(name, v.sort())
        if isinstance(v, bool):
            return self.fresh(name, z3.BoolSort())
        if isinstance(v, int):
            return self.fresh(name, z3.IntSort())
        if isinstance(v, str):
            return self.fresh(name, z3.StringSort())
        if v is None:
            return self.fresh(name, U)
        if isinstance(v, OptV):
            return OptV(self.fresh(name + ".isnone", z3.BoolSort()), self.fresh_like(st, v.val, name + ".val"))
        if isinstance(v, tuple):
            return tuple(self.fresh_like(st, x, f"{name}.{i}") for i, x in enumerate(v))
        if isinstance(v, Ref) and isinstance(st.heap[v.n], HList):
            return self.new_list(st, self.fresh_like_seq(st, st.heap[v.n].seq, name))
        if isinstance(v, (FuncV, ClassV, GlobalV)):
            return v
        raise Unsupported(f"havoc of {type(v).__name__}")

    def fresh_like_seq(self, st, seq, name):
        kind = self.c.seq_kinds.get(name.split("@")[0])
        n = self.fresh(name + ".len", z3.IntSort())
        self.len_consts.append(n)
        st.pc.append(n >= 0)
        if kind is not None:
            return SeqV(n, self._fresh_indexed(kind, name, []))
        # infer the element shape from an example element
        try:
            ex = seq.get(self.fresh("probe", z3.IntSort())) if seq.items is None else (seq.items[0] if seq.items else None)
        except Unsupported:
            ex = None
        if ex is None:
            ex = z3.Const("undef!elem", U)  # element kind unknown: opaque objects
        uid = next(self.counter)

        def shape(v, suffix):
            if is_z3(v):
                f = z3.Function(f"{name}{suffix}!{uid}", z3.IntSort(), v.sort())
                return lambda i: f(lift(i))
            if isinstance(v, tuple):
                fs = [shape(x, f"{suffix}.{j}") for j, x in enumerate(v)]
                return lambda i: tuple(f(i) for f in fs)
            if isinstance(v, OptV):
                fa, fb = shape(lift(v.isnone), suffix + ".isnone"), shape(v.val, suffix + ".val")
                return lambda i: OptV(fa(i), fb(i))
            lv = lift(v)
            if is_z3(lv):
                return shape(lv, suffix)
            raise Unsupported(f"element kind {type(v).__name__}")

        return SeqV(n, shape(ex, ""))

    def _for_symbolic(self, node, st, seq):
        k_ord = self.loop_ord[id(node)]
        spec = self.loop_spec(node, k_ord)
        if spec is None:
            raise Unsupported(f"loop {k_ord} (line {node.lineno}) over a symbolic sequence has no invariant")
        n = seq.length
        names, mutated = self.modified_names(node.body)
        names -= {t.id for t in ast.walk(node.target) if isinstance(t, ast.Name)}
        res = []
        # (1) invariant holds on entry, _k = 0
        self.check_invariants(st, spec, 0, seq, f"loop{k_ord}.entry")
        # (2) arbitrary iteration
        s_it = st.copy()
        s_it.decisions.append(f"loop{k_ord}:iter")
        self.havoc(s_it, names, mutated, f"L{k_ord}i")
        k = self.fresh("_k", z3.IntSort())
        s_it.pc += [k >= 0, k < n]
        self.assume_invariants(s_it, spec, k, seq)
        if self.feasible(s_it):
            for s1, e1 in self.assign(node.target, seq.get(k), s_it):
                if e1:
                    res.append(self._raise_out(s1, e1))
                    continue
                s1.ghost["_k"] = k
                s1.ghost["_iter_entry_env"] = dict(s1.env)  # values of the locals when the arbitrary iteration starts
                s1.ghost["_iter_elem"] = seq.get(k)  # the element of this iteration (whatever the loop variable is called)
                n_before = len(s1.trace)
                for s2, o in self.exec_block(node.body, s1):
                    if o.kind in ("next", "continue"):
                        self.check_invariants(s2, spec, k + 1, seq, f"loop{k_ord}.preserve")
                        # per-iteration clauses over the effects of THIS (arbitrary) iteration: fn(E, state, events)
                        for nm, role, fn in spec.get("iteration_ensures", ()):
                            self.oblige(s2, f"loop{k_ord}.iteration.{nm}", fn(self, s2, s2.trace[n_before:]), role, f"loop{k_ord}.iteration")
                    elif o.kind == "break":
                        s2.ghost.pop("_k", None)
                        res.append((s2, Out("next")))
                    else:
                        res.append((s2, o))
        # (3) after the loop
        s_af = st.copy()
        s_af.decisions.append(f"loop{k_ord}:exit")
        self.havoc(s_af, names, mutated, f"L{k_ord}x")
        self.assume_invariants(s_af, spec, n, seq)
        if node.orelse:
            res.extend(self.exec_block(node.orelse, s_af))
        else:
            res.append((s_af, Out("next")))
        return res

    def check_invariants(self, st, spec, k, seq, where):
        for name, text in spec["invariants"]:
            goal = self.eval_spec(text, st, {"_k": k, "_n": seq.length, "_seq": seq})
            self.oblige(st, f"{where}.{name}", goal, "auxiliary", where)

    def assume_invariants(self, st, spec, k, seq):
        for name, text in spec["invariants"]:
            st.pc.append(lift(self.eval_spec(text, st, {"_k": k, "_n": seq.length, "_seq": seq})))

    def s_While(self, node, st):
        """while loop cut with contract invariants; optional `decreases` (termination)"""
        k_ord = self.loop_ord[id(node)]
        spec = self.loop_spec(node, k_ord)
        if spec is None and getattr(self.c, "terminates_role", None):
            return self._stuck_while(node, st, k_ord)
        if spec is None:
            raise Unsupported(f"while loop {k_ord} (line {node.lineno}) has no invariant")
        if node.orelse:
            raise Unsupported("while-else")
        names, mutated = self.modified_names(node.body)
        res = []
        dummy = SeqV(0, None, [])
        self.check_invariants(st, spec, 0, dummy, f"loop{k_ord}.entry")
        # arbitrary iteration
        s_it = st.copy()
        s_it.decisions.append(f"loop{k_ord}:iter")
        self.havoc(s_it, names, mutated, f"L{k_ord}i")
        self.havoc_fields(s_it, node.body, f"L{k_ord}i")
        self.assume_invariants(s_it, spec, 0, dummy)
        for s1, c, e in self.eval(node.test, s_it):
            if e:
                res.append(self._raise_out(s1, e))
                continue
            for s2, side in self.fork(s1, self.truthy(s1, c), f"while{k_ord}"):
                if not side:
                    continue
                variant0 = None
                if spec.get("decreases"):
                    variant0 = self.eval_value(spec["decreases"], s2)
                for s3, o in self.exec_block(node.body, s2):
                    if o.kind in ("next", "continue"):
                        self.check_invariants(s3, spec, 0, dummy, f"loop{k_ord}.preserve")
                        if variant0 is not None:
                            v1 = self.eval_value(spec["decreases"], s3)
                            self.oblige(s3, f"loop{k_ord}.decreases", z3_and(lift(v1) < lift(variant0), lift(variant0) >= 0), spec.get("decreases_role", "auxiliary"), "decreases")
                    elif o.kind == "break":
                        res.append((s3, Out("next")))
                    else:
                        res.append((s3, o))
        # exit
        s_af = st.copy()
        s_af.decisions.append(f"loop{k_ord}:exit")
        self.havoc(s_af, names, mutated, f"L{k_ord}x")
        self.havoc_fields(s_af, node.body, f"L{k_ord}x")
        self.assume_invariants(s_af, spec, 0, dummy)
        for s1, c, e in self.eval(node.test, s_af):
            if e:
                res.append(self._raise_out(s1, e))
                continue
            for s2, side in self.fork(s1, self.truthy(s1, c), f"while{k_ord}x"):
                if not side:
                    res.append((s2, Out("next")))
        return res

    def loop_spec(self, node, k_ord):
        """loop contracts are keyed by the source text of the iterable / condition (robust against
        unrelated loops being added or removed) or, failing that, by ordinal in source order"""
        text = ast.unparse(node.iter if isinstance(node, (ast.For, ast.AsyncFor)) else node.test)
        if text in self.c.loops:
            return self.c.loops[text]
        if any(isinstance(k, str) for k in self.c.loops):
            # text-keyed contract: an unknown loop has no spec -- unless the function has exactly one loop and the
            # contract exactly one loop spec (the iterable was merely renamed / re-spelt)
            if len(self.c.loops) == 1 and len(self.loop_ord) == 1:
                return next(iter(self.c.loops.values()))
            return None
        return self.c.loops.get(k_ord)

    def _stuck_while(self, node, st, k_ord):
        """a `while` loop without a declared variant in a function whose contract demands
        termination: if one execution of the body leaves the loop condition the very same term
        (nothing it depends on changes), the loop never ends once entered; the termination
        obligation is then `not condition` at loop entry.  Anything else stays Unsupported."""
        res = []
        for s0, c0, e0 in self.eval(node.test, st):
            if e0:
                res.append(self._raise_out(s0, e0))
                continue
            t0 = self.truthy(s0, c0)
            for s1, side in self.fork(s0, t0, f"while{k_ord}"):
                if not side:
                    res.append((s1, Out("next")))
                    continue
                stuck = True
                for s2, o in self.exec_block(node.body, s1.copy()):
                    if o.kind not in ("next", "continue"):
                        stuck = False
                        break
                    for s3, c1, e1 in self.eval(node.test, s2):
                        t1 = None if e1 else self.truthy(s3, c1)
                        same = (t1 is t0) or (is_z3(t0) and is_z3(t1) and t0.eq(t1)) or (isinstance(t0, bool) and t0 == t1)
                        if not same:
                            stuck = False
                if not stuck:
                    raise Unsupported(f"while loop {k_ord} (line {node.lineno}) has no invariant/variant")
                # entered and stuck: termination fails on this path
                self.obligations.append(Obligation(f"terminates.loop{k_ord}-is-left", self.c.terminates_role, list(s1.pc), False, "/".join(s1.decisions), "while"))
        return res

    def havoc_fields(self, st, body, tag):
        """attributes written inside a loop body lose their recorded value"""
        written = set()
        for stmt in body:
            for sub in ast.walk(stmt):
                if isinstance(sub, ast.Attribute) and isinstance(sub.ctx, ast.Store):
                    written.add(sub.attr)
        for key in list(st.fields):
            if key[1] in written:
                v = st.fields[key]
                try:
                    st.fields[key] = self.fresh_like(st, v, f"{key[1]}@{tag}")
                except Unsupported:
                    del st.fields[key]

    def eval_value(self, text, st):
        node = ast.parse(text, mode="eval").body
        s = st.copy()
        s.env = dict(s.env)
        s.env["__spec__"] = True
        outs = self.eval(node, s)
        if len(outs) != 1 or outs[0][2] is not None:
            raise Unsupported(f"contract expression forked or raised: {text}")
        return outs[0][1]

    def s_Break(self, node, st):
        return [(st, Out("break"))]

    def s_Continue(self, node, st):
        return [(st, Out("continue"))]

    def s_Delete(self, node, st):
        outs = [(st, Out("next"))]
        for tgt in node.targets:
            nxt = []
            for s, o in outs:
                if o.kind != "next":
                    nxt.append((s, o))
                    continue
                if isinstance(tgt, ast.Name):
                    s.env.pop(tgt.id, None)
                    nxt.append((s, o))
                elif isinstance(tgt, ast.Subscript):
                    for s2, vals, e in self.eval_seq([tgt.value, tgt.slice], s):
                        if e:
                            nxt.append(self._raise_out(s2, e))
                            continue
                        obj, key = vals
                        if isinstance(obj, Ref) and isinstance(s2.heap[obj.n], HDict) and s2.heap[obj.n].sym is None and not is_z3(key):
                            if key in s2.heap[obj.n].items:
                                del s2.heap[obj.n].items[key]
                                nxt.append((s2, Out("next")))
                            else:
                                nxt.append((s2, Out("raise", ExcV("KeyError"))))
                        elif is_z3(obj) and obj.sort() == U:
                            for s3, _, e3 in self.effect(s2, "__delitem__", (obj, key), {}, ast.unparse(tgt), may_raise=True):
                                nxt.append(self._raise_out(s3, e3) if e3 else (s3, Out("next")))
                        else:
                            raise Unsupported("del of this subscript")
                else:
                    raise Unsupported("del target")
            outs = nxt
        return outs

    # ------------------------------------------------------------------ sequences
    def as_seq(self, st, v):
        if isinstance(v, SeqV):
            return v
        if isinstance(v, Ref):
            h = st.heap[v.n]
            if isinstance(h, HList):
                return h.seq
            if isinstance(h, HDict) and h.sym is None:
                return SeqV.concrete(list(h.items.keys()))
        if isinstance(v, tuple):
            return SeqV.concrete(v)
        if isinstance(v, str):
            return SeqV.concrete(list(v))  # a constant string iterates over its characters
        if is_z3(v) and v.sort() == U:
            # opaque iterable: unknown length, uninterpreted elements
            ln = z3.Function("len_U", U, z3.IntSort())(v)
            st.pc.append(ln >= 0)
            item = z3.Function("item_U", U, z3.IntSort(), U)
            return SeqV(ln, lambda i: item(v, lift(i)))
        raise Unsupported(f"iteration over {type(v).__name__}")

    # ------------------------------------------------------------------ spec expressions
    def eval_spec(self, text, st, extra=None):
        """evaluate a contract expression (pure) in state st -> python bool / z3 Bool"""
        if callable(text):
            return text(self, st, extra or {})
        node = ast.parse(text, mode="eval").body
        s = st.copy()
        s.env = dict(s.env)
        s.env.update(extra or {})
        s.env["__spec__"] = True
        outs = self.eval(node, s)
        if len(outs) != 1 or outs[0][2] is not None:
            raise Unsupported(f"contract expression forked or raised: {text}")
        v = outs[0][1]
        return self.truthy(s, v)

    def eval_spec_value(self, text, st, extra=None):
        """evaluate a contract expression (pure) in state st -> its VALUE (not its truthiness)"""
        node = ast.parse(text, mode="eval").body
        s = st.copy()
        s.env = dict(s.env)
        s.env.update(extra or {})
        s.env["__spec__"] = True
        outs = self.eval(node, s)
        if len(outs) != 1 or outs[0][2] is not None:
            raise Unsupported(f"contract expression forked or raised: {text}")
        return outs[0][1]

    # ------------------------------------------------------------------ expressions
    def eval(self, node, st):
        """-> [(st, value, exc)]"""
        m = getattr(self, "e_" + type(node).__name__, None)
        if m is None:
            raise Unsupported(f"expression {type(node).__name__} at line {getattr(node, 'lineno', '?')}")
        return m(node, st)

    def eval_seq(self, nodes, st):
        """evaluate expressions left to right -> [(st, [values], exc)]"""
        outs = [(st, [], None)]
        for n in nodes:
            nxt = []
            for s, vals, e in outs:
                if e:
                    nxt.append((s, vals, e))
                    continue
                for s2, v, e2 in self.eval(n, s):
                    nxt.append((s2, vals + [v], e2))
            outs = nxt
        return outs

    def e_Constant(self, node, st):
        return [(st, node.value, None)]

    def e_Name(self, node, st):
        if node.id in st.env:
            return [(st, st.env[node.id], None)]
        if node.id in self.c.globals_:
            return [(st, self.c.globals_[node.id], None)]
        if node.id in EXC_PARENTS:
            return [(st, ClassV(node.id), None)]
        if node.id == "__debug__":
            return [(st, True, None)]
        return [(st, GlobalV(node.id), None)]

    def e_Tuple(self, node, st):
        return [(s, tuple(vals) if not e else None, e) for s, vals, e in self.eval_seq(node.elts, st)]

    def e_List(self, node, st):
        out = []
        if any(isinstance(e, ast.Starred) for e in node.elts):
            # [a, b, *xs, c]: concatenation of concrete segments and unpacked sequences
            exprs = [e.value if isinstance(e, ast.Starred) else e for e in node.elts]
            for s, vals, e in self.eval_seq(exprs, st):
                if e:
                    out.append((s, None, e))
                    continue
                seq = SeqV.concrete([])
                for el, v in zip(node.elts, vals):
                    seq = seq.concat(self.as_seq(s, v)) if isinstance(el, ast.Starred) else seq.concat(SeqV.concrete([v]))
                out.append((s, self.new_list(s, seq), None))
            return out
        for s, vals, e in self.eval_seq(node.elts, st):
            out.append((s, None, e) if e else (s, self.new_list(s, SeqV.concrete(vals)), None))
        return out

    def e_Dict(self, node, st):
        if any(k is None for k in node.keys):
            raise Unsupported("dict unpacking")
        out = []
        for s, vals, e in self.eval_seq(list(node.keys) + list(node.values), st):
            if e:
                out.append((s, None, e))
                continue
            n = len(node.keys)
            if any(is_z3(k) for k in vals[:n]):
                raise Unsupported("dict literal with symbolic keys")
            out.append((s, self.new_dict(s, dict(zip(vals[:n], vals[n:]))), None))
        return out

    def e_JoinedStr(self, node, st):
        parts = []
        for v in node.values:
            parts.append(v.value if isinstance(v, ast.FormattedValue) else v)
        exprs = [p for p in parts if not isinstance(p, ast.Constant)]
        out = []
        for s, vals, e in self.eval_seq(exprs, st):
            if e:
                out.append((s, None, e))
                continue
            it = iter(vals)
            pieces = []
            for p, orig in zip(parts, node.values):
                if isinstance(p, ast.Constant):
                    pieces.append(z3.StringVal(p.value))
                else:
                    v = next(it)
                    conv = getattr(orig, "conversion", -1)
                    pieces.append(self.to_str(s, v, repr_=(conv == 114)))
            r = pieces[0] if len(pieces) == 1 else z3.Concat(*pieces)
            out.append((s, r, None))
        return out

    def to_str(self, st, v, repr_=False):
        if isinstance(v, str) and not repr_:
            return z3.StringVal(v)
        if is_z3(v) and v.sort() == z3.StringSort() and not repr_:
            return v
        if is_z3(v) and v.sort() == z3.IntSort() and not repr_:
            return z3.IntToStr(v)
        fn = z3.Function("repr" if repr_ else "str", U, z3.StringSort())
        try:
            return fn(to_U(v))
        except Unsupported:
            return self.fresh("fmt", z3.StringSort())

    def e_IfExp(self, node, st):
        out = []
        for s, c, e in self.eval(node.test, st):
            if e:
                out.append((s, None, e))
                continue
            sides = self.fork(s, self.truthy(s, c), f"ifexp{self.if_ord.get(id(node), '?')}")
            outs = []
            for s2, side in sides:
                outs.extend(self.eval(node.body if side else node.orelse, s2))
            out.extend(outs)
        return out

    def e_BoolOp(self, node, st):
        is_and = isinstance(node.op, ast.And)
        spec_mode = st.env.get("__spec__")
        if spec_mode:
            # contract expressions: and/or are used in boolean position only
            outs = self.eval_seq(node.values, st)
            if len(outs) == 1 and outs[0][2] is None:
                ts = [self.truthy(outs[0][0], v) for v in outs[0][1]]
                return [(outs[0][0], z3_and(*ts) if is_and else z3_or(*ts), None)]

        def go(s, idx):
            res = []
            for s1, v, e in self.eval(node.values[idx], s):
                if e:
                    res.append((s1, None, e))
                    continue
                if idx == len(node.values) - 1:
                    res.append((s1, v, None))
                    continue
                t = self.truthy(s1, v)
                if spec_mode or (self._pure_syntax(node.values[idx + 1 :]) and self._boolish(v)):
                    # pure rest: build a formula instead of forking
                    try:
                        rest = go(s1.copy(), idx + 1)
                    except Unsupported:
                        rest = []
                    if len(rest) == 1 and rest[0][2] is None and self._boolish(rest[0][1]):
                        r = rest[0][1]
                        res.append((rest[0][0], z3_and(t, self.truthy(s1, r)) if is_and else z3_or(t, self.truthy(s1, r)), None))
                        continue
                for s2, side in self.fork(s1, t, f"boolop@{self._rel(node)}.{idx}"):
                    if side == is_and:
                        res.extend(go(s2, idx + 1))
                    else:
                        res.append((s2, v, None))
            return res

        return go(st, 0)

    def _boolish(self, v):
        return isinstance(v, bool) or (is_z3(v) and v.sort() == z3.BoolSort())

    def _pure_syntax(self, nodes):
        for n in nodes:
            for sub in ast.walk(n):
                if isinstance(sub, (ast.Call, ast.Subscript, ast.Await, ast.NamedExpr)):
                    return False
        return True

    def e_UnaryOp(self, node, st):
        out = []
        for s, v, e in self.eval(node.operand, st):
            if e:
                out.append((s, None, e))
            elif isinstance(node.op, ast.Not):
                out.append((s, z3_not(self.truthy(s, v)), None))
            elif isinstance(node.op, ast.USub):
                out.append((s, -v, None))
            else:
                raise Unsupported("unary op")
        return out

    def e_NamedExpr(self, node, st):
        out = []
        for s, v, e in self.eval(node.value, st):
            if not e:
                s.env[node.target.id] = v
            out.append((s, v, e))
        return out

    def e_Await(self, node, st):
        out = []
        for s, v, e in self.eval(node.value, st):
            if not e:
                s.trace.append(Ev("await", (v,), {}, label=ast.unparse(node.value)))
            out.append((s, v, e))
        return out

    def e_Lambda(self, node, st):
        return [(st, FuncV(node, st.env), None)]

    def e_Compare(self, node, st):
        out = []
        for s, vals, e in self.eval_seq([node.left] + list(node.comparators), st):
            if e:
                out.append((s, None, e))
                continue
            conj = []
            for op, a, b in zip(node.ops, vals, vals[1:]):
                conj.append(self.compare(s, op, a, b))
            out.append((s, z3_and(*conj), None))
        return out

    def compare(self, st, op, a, b):
        if isinstance(op, (ast.Is, ast.Eq)):
            return eq(a, b)
        if isinstance(op, (ast.IsNot, ast.NotEq)):
            return z3_not(eq(a, b))
        if isinstance(op, (ast.In, ast.NotIn)):
            r = self.contains(st, b, a)
            return r if isinstance(op, ast.In) else z3_not(r)
        if isinstance(a, UndefV) or isinstance(b, UndefV):
            return False
        la, lb = lift(a), lift(b)
        if isinstance(a, OptV) or isinstance(b, OptV):
            # comparison with None raises TypeError in Python: obligation that neither is None
            for x in (a, b):
                if isinstance(x, OptV) and not st.env.get("__spec__"):
                    self.oblige(st, "safety.no-None-ordering", z3_not(x.isnone), "safety")
            la = lift(a.val if isinstance(a, OptV) else a)
            lb = lift(b.val if isinstance(b, OptV) else b)
        if isinstance(la, tuple) and isinstance(lb, tuple):
            return self.lex(st, op, la, lb)
        if is_z3(la) and is_z3(lb) and la.sort() == U and lb.sort() == U:
            lt = z3.Function("lt_U", U, U, z3.BoolSort())
            self.used_trusted.add("lt_U: `<` on opaque objects is an uninterpreted relation")
            table = {ast.Lt: lt(la, lb), ast.Gt: lt(lb, la), ast.LtE: z3.Not(lt(lb, la)), ast.GtE: z3.Not(lt(la, lb))}
            return table[type(op)]
        if is_z3(la) and is_z3(lb) and la.sort() == z3.IntSort() and lb.sort() == z3.IntSort():
            table = {ast.Lt: la < lb, ast.Gt: la > lb, ast.LtE: la <= lb, ast.GtE: la >= lb}
            return table[type(op)]
        if is_z3(la) and la.sort() == U and is_z3(lb) and lb.sort() == z3.IntSort():
            return self.compare(st, op, int_U(la), lb)
        if is_z3(lb) and lb.sort() == U and is_z3(la) and la.sort() == z3.IntSort():
            return self.compare(st, op, la, int_U(lb))
        raise Unsupported(f"ordering of {type(a).__name__} and {type(b).__name__}")

    def lex(self, st, op, a, b):
        if len(a) != len(b) or not a:
            raise Unsupported("lexicographic compare of different arity")
        strict = isinstance(op, (ast.Lt, ast.Gt))
        lt_op = ast.Lt() if isinstance(op, (ast.Lt, ast.LtE)) else ast.Gt()
        if len(a) == 1:
            return self.compare(st, op, a[0], b[0])
        head = self.compare(st, lt_op, a[0], b[0])
        return z3_or(head, z3_and(eq(a[0], b[0]), self.lex(st, op, a[1:], b[1:])))

    def contains(self, st, container, x):
        if isinstance(container, (tuple,)):
            return z3_or(*[eq(x, y) for y in container])
        if isinstance(container, Ref):
            h = st.heap[container.n]
            if isinstance(h, HList):
                return self.seq_contains(h.seq, x)
            if isinstance(h, HDict) and h.sym is None:
                return z3_or(*[eq(x, k) for k in h.items])
        if isinstance(container, SeqV):
            return self.seq_contains(container, x)
        if isinstance(container, str) or (is_z3(container) and container.sort() == z3.StringSort()):
            return z3.Contains(lift(container), lift(x))
        if is_z3(container) and container.sort() == U:
            f = z3.Function("contains_U", U, U, z3.BoolSort())
            return f(container, to_U(x))
        raise Unsupported(f"`in` on {type(container).__name__}")

    def seq_contains(self, seq, x):
        if seq.items is not None:
            return z3_or(*[eq(x, y) for y in seq.items])
        j = self.fresh("j", z3.IntSort())
        return z3.Exists([j], z3.And(j >= 0, j < seq.length, lift(eq(seq.get(j), x))))

    def e_BinOp(self, node, st):
        out = []
        for s, vals, e in self.eval_seq([node.left, node.right], st):
            if e:
                out.append((s, None, e))
                continue
            out.extend(self.binop(s, node, vals[0], vals[1]))
        return out

    def binop(self, st, node, a, b):
        op = node.op
        if isinstance(op, ast.Add):
            if isinstance(a, Ref) and (isinstance(b, Ref) or (is_z3(b) and b.sort() == U)) and isinstance(st.heap[a.n], HList):
                sa, sb = self.as_seq(st, a), self.as_seq(st, b)
                return [(st, self.new_list(st, sa.concat(sb)), None)]
            if isinstance(a, tuple) and isinstance(b, tuple):
                return [(st, a + b, None)]
            la, lb = lift(a), lift(b)
            if is_z3(la) and is_z3(lb) and la.sort() == lb.sort():
                if la.sort() == z3.StringSort():
                    return [(st, z3.Concat(la, lb), None)]
                if la.sort() == z3.IntSort():
                    return [(st, la + lb, None)]
        if isinstance(op, (ast.Sub, ast.Mult)):
            la, lb = lift(a), lift(b)
            if is_z3(la) and is_z3(lb) and la.sort() == z3.IntSort() == lb.sort():
                return [(st, la - lb if isinstance(op, ast.Sub) else la * lb, None)]
        if isinstance(op, ast.Div):
            # pathlib's `/`: an injective pure constructor on opaque values
            f = z3.Function("path_join", U, U, U)
            self.used_trusted.add("pathlib `/` is a pure function of its operands")
            return [(st, f(to_U(a), to_U(b)), None)]
        la, lb = lift(a), lift(b)
        try:
            f = z3.Function(f"binop_{type(op).__name__}", U, U, U)
            return [(st, f(to_U(la), to_U(lb)), None)]
        except Unsupported:
            pass
        raise Unsupported(f"binary {type(op).__name__} on {type(a).__name__},{type(b).__name__}")

    def e_Attribute(self, node, st):
        out = []
        for s, o, e in self.eval(node.value, st):
            if e:
                out.append((s, None, e))
                continue
            out.extend(self.getattr_(s, o, node.attr, node))
        return out

    def getattr_(self, st, o, attr, node):
        if isinstance(o, UndefV):
            return [(st, o, None)]
        src = ast.unparse(node)
        if isinstance(o, GlobalV):
            d = f"{o.dotted}.{attr}"
            if d in self.c.globals_:
                return [(st, self.c.globals_[d], None)]
            if d in EXC_PARENTS:
                return [(st, ClassV(d), None)]
            return [(st, GlobalV(d), None)]
        if is_z3(o) and o.sort() == U:
            key = (o.sexpr(), attr)
            if key in st.fields:
                return [(st, st.fields[key], None)]
            spec = self.c.attrs.get(attr) or self.c.attrs.get(src)
            if spec is not None and spec.get("method"):
                return [(st, BoundV(o, attr, src), None)]
            if spec is not None and spec.get("effect"):
                # a property whose getter has effects (e.g. may raise)
                return self.effect(st, src, (o,), {}, src, may_raise=spec.get("may_raise", True), returns=spec.get("kind", "U"), raises=spec.get("raises"))
            kind = (spec or {}).get("kind", "U")
            sort = {"U": U, "Str": z3.StringSort(), "Int": z3.IntSort(), "Bool": z3.BoolSort()}[kind]
            f = z3.Function(f"attr.{attr}:{kind}", U, sort)
            return [(st, f(o), None)]
        if isinstance(o, (Ref, SeqV, str, tuple)) or is_z3(o):
            return [(st, BoundV(o, attr, src), None)]
        if isinstance(o, ExcV):
            return [(st, self.fresh(f"exc.{attr}", U), None)]
        if o is None:
            return [(st, None, ExcV("AttributeError"))]
        raise Unsupported(f"attribute {attr} of {type(o).__name__}")

    def e_Subscript(self, node, st):
        out = []
        if isinstance(node.slice, ast.Slice):
            sl = node.slice
            parts = [p for p in (sl.lower, sl.upper) if p is not None]
            if sl.step is not None:
                raise Unsupported("slice step")
            for s, vals, e in self.eval_seq([node.value] + parts, st):
                if e:
                    out.append((s, None, e))
                    continue
                o = vals[0]
                it = iter(vals[1:])
                lo = next(it) if sl.lower is not None else None
                hi = next(it) if sl.upper is not None else None
                if isinstance(o, str) or (is_z3(o) and o.sort() == z3.StringSort()):
                    # string slices s[a:], s[:b], s[a:b] with non-negative bounds
                    zs = lift(o)
                    zlo = lift(lo) if lo is not None else z3.IntVal(0)
                    zhi = lift(hi) if hi is not None else z3.Length(zs)
                    if (isinstance(lo, int) and lo < 0) or (isinstance(hi, int) and hi < 0):
                        raise Unsupported("negative string slice bound")
                    out.append((s, z3.SubString(zs, zlo, zhi - zlo), None))
                    continue
                seq = self.as_seq(s, o)
                if seq.items is not None and not is_z3(lo) and not is_z3(hi):
                    out.append((s, self.new_list(s, SeqV.concrete(seq.items[lo:hi])), None))
                elif lo is None:
                    out.append((s, self.new_list(s, seq.slice_to(hi)), None))
                elif hi is None:
                    out.append((s, self.new_list(s, seq.slice_from(lo)), None))
                else:
                    raise Unsupported("two-sided symbolic slice")
            return out
        for s, vals, e in self.eval_seq([node.value, node.slice], st):
            if e:
                out.append((s, None, e))
                continue
            out.extend(self.getitem(s, vals[0], vals[1], node))
        return out

    def getitem(self, st, o, k, node):
        if isinstance(o, UndefV) or isinstance(k, UndefV):
            return [(st, UNDEF, None)]
        if isinstance(o, tuple):
            if isinstance(k, int):
                return [(st, o[k], None)]
            raise Unsupported("symbolic index into tuple")
        if isinstance(o, Ref):
            h = st.heap[o.n]
            if isinstance(h, HList):
                seq = h.seq
                if seq.items is not None and isinstance(k, int):
                    if -len(seq.items) <= k < len(seq.items):
                        return [(st, seq.items[k], None)]
                    return [(st, None, ExcV("IndexError"))]
                lk = lift(k)
                if st.env.get("__spec__"):
                    return [(st, seq.get(lk), None)]
                inb = z3.And(lk >= 0, lk < seq.length)
                if isinstance(k, int) and k < 0:
                    lk = seq.length + k
                    inb = lk >= 0
                outs = []
                for s2, side in self.fork(st, inb, f"idx@{self._rel(node)}"):
                    outs.append((s2, seq.get(lk), None) if side else (s2, None, ExcV("IndexError")))
                return outs
            if isinstance(h, HDict):
                if h.sym is None and not is_z3(k):
                    if k in h.items:
                        return [(st, h.items[k], None)]
                    return [(st, None, ExcV("KeyError"))]
                if h.sym is not None and h.sym[0] == "fn":
                    # total symbolic map: key -> value, with a domain predicate
                    _, fn_, dom = h.sym
                    outs = []
                    for s2, side in self.fork(st, dom(k), f"key@{self._rel(node)}"):
                        outs.append((s2, fn_(k), None) if side else (s2, None, ExcV("KeyError")))
                    return outs
                raise Unsupported("symbolic dict lookup")
        if is_z3(o) and o.sort() == U:
            spec = self.c.attrs.get("__getitem__:" + ast.unparse(node.value))
            if spec and spec.get("pure"):
                f = z3.Function("getitem", U, U, U)
                return [(st, f(o, to_U(k)), None)]
            return self.effect(st, "__getitem__", (o, k), {}, ast.unparse(node), may_raise=True)
        if is_z3(o) and o.sort() == z3.StringSort():
            lk = lift(k)
            return [(st, z3.SubString(o, lk, 1), None)]
        if isinstance(o, GlobalV):
            # e.g. ty.Union[X]: an opaque global object
            return [(st, GlobalV(f"{o.dotted}[{ast.unparse(node.slice)}]"), None)]
        raise Unsupported(f"subscript of {type(o).__name__}")

    # ---- comprehensions
    def e_ListComp(self, node, st):
        return self._comp(node, st, "list")

    def e_GeneratorExp(self, node, st):
        return self._comp(node, st, "gen")

    def e_SetComp(self, node, st):
        return self._comp(node, st, "set")

    def e_DictComp(self, node, st):
        """only the opaque case: the result is an arbitrary (fresh) mapping; nothing is assumed about it"""
        if len(node.generators) != 1:
            raise Unsupported("nested dict comprehension")
        out = []
        for s, it, e in self.eval(node.generators[0].iter, st):
            if e:
                out.append((s, None, e))
            else:
                out.append((s, self.fresh("dictcomp", U), None))
        return out

    def _comp(self, node, st, kind):
        if len(node.generators) != 1:
            raise Unsupported("nested comprehension")
        g = node.generators[0]
        out = []
        for s, it, e in self.eval(g.iter, st):
            if e:
                out.append((s, None, e))
                continue
            seq = self.as_seq(s, it)
            if seq.items is not None:
                out.extend(self._comp_concrete(node, g, s, seq.items))
            elif kind == "list" and not g.ifs:
                # unfiltered list comprehension over a symbolic sequence: an element-wise map
                lz = LazyComp(node, g, seq, dict(s.env))
                out.append((s, self.new_list(s, SeqV(seq.length, lambda i, lz=lz, s=s: self.comp_elem(s, lz, i)[1])), None))
            else:
                out.append((s, LazyComp(node, g, seq, dict(s.env)), None))
        return out

    def _comp_concrete(self, node, g, st, items):
        """eager evaluation over a concrete-length list (filters fork)"""
        outs = [(st, [])]
        saved = {t.id: st.env.get(t.id) for t in ast.walk(g.target) if isinstance(t, ast.Name)}
        res_exc = []
        for x in items:
            nxt = []
            for s, acc in outs:
                for s1, e1 in self.assign(g.target, x, s):
                    if e1:
                        res_exc.append((s1, None, e1))
                        continue
                    cands = [(s1, True)]
                    for cond in g.ifs:
                        nc = []
                        for s2, keep in cands:
                            if not keep:
                                nc.append((s2, False))
                                continue
                            for s3, c, e3 in self.eval(cond, s2):
                                if e3:
                                    res_exc.append((s3, None, e3))
                                    continue
                                for s4, side in self.fork(s3, self.truthy(s3, c), f"compif@{self._rel(node)}"):
                                    nc.append((s4, side))
                        cands = nc
                    for s2, keep in cands:
                        if not keep:
                            nxt.append((s2, acc))
                            continue
                        for s3, v, e3 in self.eval(node.elt, s2):
                            if e3:
                                res_exc.append((s3, None, e3))
                            else:
                                nxt.append((s3, acc + [v]))
            outs = nxt
        final = []
        for s, acc in outs:
            for k_, v_ in saved.items():
                if v_ is None:
                    s.env.pop(k_, None)
                else:
                    s.env[k_] = v_
            final.append((s, self.new_list(s, SeqV.concrete(acc)), None))
        return final + res_exc

    def comp_elem(self, st, lazy, idx):
        """(cond, value) of a lazy comprehension at symbolic index idx (pure bodies only)"""
        node, g, seq, env = lazy.node, lazy.g, lazy.seq, lazy.env
        s = st.copy()
        s.env = dict(env)
        s.env["__spec__"] = True
        outs = self.assign(g.target, seq.get(idx), s)
        if len(outs) != 1 or outs[0][1]:
            raise Unsupported("comprehension target")
        s = outs[0][0]
        cond = True
        for c in g.ifs:
            r = self.eval(c, s)
            if len(r) != 1 or r[0][2]:
                raise Unsupported("comprehension filter with effects or forks")
            cond = z3_and(cond, self.truthy(s, r[0][1]))
        r = self.eval(node.elt, s)
        if len(r) != 1 or r[0][2]:
            raise Unsupported("comprehension element with effects or forks")
        return cond, r[0][1]

    # ---- calls
    def e_Call(self, node, st):
        if any(isinstance(a, ast.Starred) for a in node.args):
            # f(a, *rest): the unpacked iterable is passed on as one opaque extra argument
            node = ast.Call(func=node.func, args=[a.value if isinstance(a, ast.Starred) else a for a in node.args], keywords=node.keywords, lineno=getattr(node, "lineno", 0), col_offset=0)
        fname = ast.unparse(node.func)
        out = []
        # evaluate callee (for bound methods), args, kwargs left to right
        kwnames = [k.arg if k.arg is not None else "**" for k in node.keywords]
        if isinstance(node.func, ast.Attribute):
            # method call: evaluate the receiver; opaque receivers give a bound method.  The call is
            # named after the receiver VALUE (self.hooks.post_run_task), not after the source text, so
            # that a local alias (h = self.hooks; h.post_run_task(...)) names the same callee
            fouts = []
            for s, o, e in self.eval(node.func.value, st):
                if e:
                    fouts.append((s, None, e))
                    continue
                if is_z3(o) and o.sort() == U:
                    cn = canon_name(o)
                    if cn is not None:
                        fname = f"{cn}.{node.func.attr}"
                if is_z3(o) and o.sort() == U and fname not in self.c.callees:
                    fouts.append((s, BoundV(o, node.func.attr, fname), None))
                else:
                    fouts.extend(self.getattr_(s, o, node.func.attr, node.func))
        else:
            fouts = self.eval(node.func, st)
        for s, fv, e in fouts:
            if e:
                out.append((s, None, e))
                continue
            for s2, vals, e2 in self.eval_seq(list(node.args) + [k.value for k in node.keywords], s):
                if e2:
                    out.append((s2, None, e2))
                    continue
                args = vals[: len(node.args)]
                kwargs = dict(zip(kwnames, vals[len(node.args) :]))
                out.extend(self.call(s2, node, fname, fv, args, kwargs))
        return out

    def call(self, st, node, fname, fv, args, kwargs):
        from pyvc import builtins_ as B

        # 1. contract-declared callee (by source text of the callee expression)
        spec = self.c.callees.get(fname)
        if spec is None and isinstance(fv, BoundV):
            spec = self.c.callees.get("." + fv.name)
        if spec is not None:
            return self.call_spec(st, node, fname, fv, spec, args, kwargs)
        # 2. local function / lambda
        if isinstance(fv, FuncV):
            return self.call_local(st, fv, args, kwargs)
        # 3. builtins and methods of modelled values
        r = B.dispatch(self, st, node, fname, fv, args, kwargs)
        if r is not None:
            return r
        if isinstance(fv, ClassV):
            return [(st, ExcV(fv.name, tuple(args)), None)]
        # 4. default: opaque effect
        if self.c.default_effects:
            recv = (fv.recv,) if isinstance(fv, BoundV) else ((fv,) if is_z3(fv) else ())
            return self.effect(st, fname, tuple(recv) + tuple(args), kwargs, fname, may_raise=True)
        raise Unsupported(f"call to {fname} (line {node.lineno}) has no contract, builtin axiom or inline body")

    def call_spec(self, st, node, fname, fv, spec, args, kwargs):
        kind = spec.get("kind", "effect")
        recv = (fv.recv,) if isinstance(fv, BoundV) else ()
        if kind == "model":
            return spec["model"](self, st, node, recv, args, kwargs)
        if kind == "pure":
            self.used_trusted.add(f"{fname}: pure (deterministic, no effect, does not raise)")
            sort = {"U": U, "Str": z3.StringSort(), "Int": z3.IntSort(), "Bool": z3.BoolSort()}[spec.get("returns", "U")]
            allv = [to_U(a) for a in list(recv) + list(args)] + [to_U(v) for _, v in sorted(kwargs.items())]
            nm = spec.get("name", fname)
            f = z3.Function(f"fn.{nm}", *([U] * len(allv)), sort)
            return [(st, f(*allv) if allv else z3.Const(f"fn.{nm}", sort), None)]
        if kind == "ctor":
            o = self.fresh(spec.get("cls", fname), U)
            names = spec.get("fields", [])
            for n_, a in zip(names, args):
                st.fields[(o.sexpr(), n_)] = a
            for k_, v_ in kwargs.items():
                st.fields[(o.sexpr(), k_)] = v_
            for k_, v_ in spec.get("defaults", {}).items():
                st.fields.setdefault((o.sexpr(), k_), v_)
            st.pc.append(truthy_U(o))
            st.pc.append(o != NONE_U)
            return [(st, o, None)]
        if kind == "effect":
            return self.effect(
                st,
                spec.get("name", fname),
                tuple(recv) + tuple(args),
                kwargs,
                fname,
                may_raise=spec.get("may_raise", True),
                returns=spec.get("returns", "U"),
                raises=spec.get("raises"),
                post=spec.get("post"),
            )
        raise Unsupported(f"callee spec kind {kind}")

    def effect(self, st, name, args, kwargs, label, may_raise=True, returns="U", raises=None, post=None):
        out = []
        if may_raise:
            s_r = st.copy()
            s_r.decisions.append(f"call:{name}:raise")
            exc = ExcV(raises, (), self.fresh("exc", U))
            s_r.trace.append(Ev(name, args, kwargs, None, True, label, dict(s_r.fields)))
            out.append((s_r, None, exc))
            if getattr(self.c, "base_exceptions", False) and raises is None:
                # ... or a BaseException that is not an Exception (KeyboardInterrupt, SystemExit)
                s_b = st.copy()
                s_b.decisions.append(f"call:{name}:raise-base")
                s_b.trace.append(Ev(name, args, kwargs, None, True, label, dict(s_b.fields)))
                out.append((s_b, None, ExcV("KeyboardInterrupt", (), self.fresh("exc", U))))
        s_ok = st
        s_ok.decisions.append(f"call:{name}:ok")
        if returns is None:
            ret = None
        elif returns in ("U", "Str", "Int", "Bool"):
            ret = self.fresh_kind(returns, f"ret.{name}")
        else:
            ret = self.materialize(s_ok, self.fresh_kind(returns, f"ret.{name}"))
        ev = Ev(name, args, kwargs, ret, False, label, dict(s_ok.fields))
        s_ok.trace.append(ev)
        if post is not None:
            post(self, s_ok, ev)
        out.append((s_ok, ret, None))
        return out

    def call_local(self, st, fv, args, kwargs):
        node = fv.node
        saved = st.env
        env = dict(fv.env)
        params = [a.arg for a in node.args.args]
        defaults = node.args.defaults
        bound = dict(zip(params, args))
        bound.update(kwargs)
        for p, d in zip(params[len(params) - len(defaults) :], defaults):
            if p not in bound:
                r = self.eval(d, st)
                bound[p] = r[0][1]
        if set(bound) != set(params):
            raise Unsupported("local call arity")
        env.update(bound)
        if saved.get("__spec__"):
            env["__spec__"] = True
        st.env = env
        out = []
        if isinstance(node, ast.Lambda):
            for s, v, e in self.eval(node.body, st):
                s.env = saved
                out.append((s, v, e))
            return out
        for s, o in self.exec_block(node.body, st):
            s.env = saved
            if o.kind == "raise":
                out.append((s, None, o.val))
            elif o.kind in ("return", "next"):
                out.append((s, o.val if o.kind == "return" else None, None))
            else:
                raise Unsupported("break/continue escaping local function")
        return out

    # ------------------------------------------------------------------ driver
    def run(self, st):
        body = list(self.fn.node.body)
        if body and isinstance(body[0], ast.Expr) and isinstance(body[0].value, ast.Constant) and isinstance(body[0].value.value, str):
            body = body[1:]
        self.paths = self.exec_block(body, st)
        return self.paths
