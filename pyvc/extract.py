"""Mechanical extraction of the functions under contract from the working tree.

Nothing is copied by hand: on every run the file is parsed, the function located by
qualified name, and the *verified text* is the ast of that function with exactly the
following dropped (each drop is reported in the evidence):

  * the docstring
  * parameter / return / variable annotations (AnnAssign without value is dropped,
    with value it becomes a plain assignment)
  * decorators (@property/@classmethod/@staticmethod only select the calling convention)
  * `logger.<level>(...)` expression statements
"""

from __future__ import annotations

import ast
import hashlib
from dataclasses import dataclass, field
from pathlib import Path

from vf.core import REPO, CheckerError


@dataclass
class FnInfo:
    file: str
    qualname: str
    node: ast.AST
    source: str
    sha256: str
    lineno: int
    dropped: list = field(default_factory=list)
    is_async: bool = False

    def describe(self):
        return {
            "function": f"{self.file}:{self.qualname}",
            "line": self.lineno,
            "source_sha256": self.sha256,
            "lines": self.source.count("\n") + 1,
        }


_cache = {}


def parse_file(relpath):
    p = REPO / relpath
    key = str(p)
    if key not in _cache:
        src = p.read_text()
        _cache[key] = (src, ast.parse(src))
    return _cache[key]


def locate(relpath, qualname) -> FnInfo:
    src, tree = parse_file(relpath)
    parts = [p for p in qualname.split(".") if p != "<locals>"]
    node = tree
    for part in parts:
        found = None
        for ch in ast.walk(node) if node is not tree and not isinstance(node, ast.ClassDef) else node.body:
            if isinstance(ch, (ast.FunctionDef, ast.AsyncFunctionDef, ast.ClassDef)) and ch.name == part and ch is not node:
                found = ch
                break
        if found is None:
            raise CheckerError(f"cannot locate {qualname} in {relpath} (at {part!r})")
        node = found
    if not isinstance(node, (ast.FunctionDef, ast.AsyncFunctionDef)):
        raise CheckerError(f"{qualname} in {relpath} is not a function")
    seg = ast.get_source_segment(src, node)
    dropped = []
    body = list(node.body)
    if body and isinstance(body[0], ast.Expr) and isinstance(body[0].value, ast.Constant) and isinstance(body[0].value.value, str):
        dropped.append("docstring")
    if node.decorator_list:
        dropped.append("decorators:" + ",".join(ast.unparse(d) for d in node.decorator_list))
    if node.returns is not None or any(a.annotation is not None for a in node.args.args + node.args.kwonlyargs):
        dropped.append("annotations")
    for sub in ast.walk(node):
        if isinstance(sub, ast.Expr) and isinstance(sub.value, ast.Call):
            f = sub.value.func
            if isinstance(f, ast.Attribute) and isinstance(f.value, ast.Name) and f.value.id == "logger":
                dropped.append("logger-calls (the call itself; arguments with calls / effectful attribute reads are evaluated)")
                break
    return FnInfo(
        file=relpath,
        qualname=qualname,
        node=node,
        source=seg,
        sha256=hashlib.sha256(seg.encode()).hexdigest(),
        lineno=node.lineno,
        dropped=dropped,
        is_async=isinstance(node, ast.AsyncFunctionDef),
    )


def module_constants(relpath):
    """top-level `NAME = <literal>` assignments of a module (used for tag tables etc.)"""
    src, tree = parse_file(relpath)
    out = {}
    for st in tree.body:
        if isinstance(st, ast.Assign) and len(st.targets) == 1 and isinstance(st.targets[0], ast.Name):
            try:
                out[st.targets[0].id] = ast.literal_eval(st.value)
            except Exception:
                pass
    return out
