"""Contracts, obligation discharge (z3, then cvc5 on unknown), vacuity guards."""

from __future__ import annotations

import hashlib
import subprocess
import tempfile
import time
from dataclasses import dataclass, field

import z3

from pyvc import engine as EN
from pyvc.engine import Engine, St, Unsupported, lift
from pyvc.extract import locate


@dataclass
class Contract:
    file: str
    qualname: str
    params: dict  # name -> kind (ordered)
    requires: list = field(default_factory=list)  # [(name, text|callable)]
    ensures: list = field(default_factory=list)  # [(name, role, text|callable)]  on return
    raises: list = field(default_factory=list)  # [(name, role, callable(E, st, exc)->goal)] on raise exits
    exits: list = field(default_factory=list)  # [(name, role, callable(E, st, out)->goal)] on every exit
    allow_raise: bool = True  # exceptional exits unconstrained unless `raises` given
    loops: dict = field(default_factory=dict)  # loop ordinal -> {"invariants": [(name, text)]}
    callees: dict = field(default_factory=dict)
    attrs: dict = field(default_factory=dict)
    globals_: dict = field(default_factory=dict)
    seq_kinds: dict = field(default_factory=dict)
    default_effects: bool = False
    with_enter_may_raise: bool = True
    setup: object = None  # callable(E, st)
    trusted: list = field(default_factory=list)
    min_paths: int = 1
    terminates_role: str = ""  # if set: undeclared `while` loops get a termination obligation of this role
    base_exceptions: bool = False  # opaque effects may also raise KeyboardInterrupt/SystemExit
    no_raise_role: str = "safety"  # role of the `no-raise` obligations when allow_raise is False

    @property
    def target(self):
        return f"{self.file}:{self.qualname}"


@dataclass
class Result:
    contract: Contract
    fn: object
    engine: Engine
    obligations: list  # dicts
    paths: list
    unsupported: str | None = None


def _smt2(pc, goal):
    s = z3.Solver()
    exprs = [p for p in pc if p is not True] + [goal]
    for b in EN.background_for(exprs):
        s.add(b)
    for p in exprs[:-1]:
        s.add(p)
    s.add(z3.Not(goal))
    return s


def run_cvc5(smt2, timeout_s):
    with tempfile.NamedTemporaryFile("w", suffix=".smt2", delete=False) as f:
        f.write("(set-logic ALL)\n" + smt2 + "\n(check-sat)\n")
        path = f.name
    try:
        r = subprocess.run(
            ["/usr/bin/cvc5", "--strings-exp", f"--tlimit={int(timeout_s * 1000)}", path],
            capture_output=True,
            text=True,
            timeout=timeout_s + 5,
        )
        out = r.stdout.strip().splitlines()
        return out[0] if out else "unknown"
    except Exception:
        return "unknown"
    finally:
        import os

        os.unlink(path)


def run_z3_old(smt2, timeout_s):
    with tempfile.NamedTemporaryFile("w", suffix=".smt2", delete=False) as f:
        f.write(smt2 + "\n(check-sat)\n")
        path = f.name
    try:
        r = subprocess.run(["/usr/bin/z3", f"-T:{int(timeout_s)}", path], capture_output=True, text=True, timeout=timeout_s + 5)
        out = r.stdout.strip().splitlines()
        return out[0] if out and out[0] in ("sat", "unsat") else "unknown"
    except Exception:
        return "unknown"
    finally:
        import os

        os.unlink(path)


def expand_quantifiers(f, scope):
    """replace every single-Int-variable quantifier by its instances at -1..scope
    (used only to *search* for candidate counterexamples, never to discharge)"""
    if z3.is_quantifier(f):
        if f.num_vars() == 1 and f.var_sort(0) == z3.IntSort():
            body = f.body()
            insts = [expand_quantifiers(z3.substitute_vars(body, z3.IntVal(k)), scope) for k in range(-1, scope + 1)]
            return z3.And(*insts) if f.is_forall() else z3.Or(*insts)
        return f
    if z3.is_app(f) and f.num_args() > 0:
        kids = [expand_quantifiers(c, scope) for c in f.children()]
        try:
            return f.decl()(*kids)
        except Exception:
            return f
    return f


def _ground_solver(pc, goal, timeout_s):
    """solver over pc (and not goal) with the background injection axioms instantiated on the
    ground terms that occur; None if pc itself contains quantifiers"""
    exprs = [p for p in pc if p is not True and p is not None]
    if any(_has_quantifier(e) for e in exprs) or (goal is not None and _has_quantifier(goal)):
        return None
    s = z3.Solver()
    s.set("timeout", int(timeout_s * 1000))
    for b in EN.BACKGROUND:
        s.add(b)
    allx = list(exprs)
    if goal is not None:
        allx.append(z3.Not(goal))
    for e in allx:
        s.add(e)
    seen = set()

    def inst(t):
        if t.get_id() in seen:
            return
        seen.add(t.get_id())
        if z3.is_app(t):
            nm = t.decl().name()
            if nm == "u_of_str":
                s.add(EN.str_U(t) == t.arg(0))
                s.add(EN._not_special(t))
            elif nm == "u_of_int":
                s.add(EN.int_U(t) == t.arg(0))
                s.add(EN._not_special(t))
            elif nm == "Path":
                s.add(EN.unPath_U(t) == t.arg(0))
            for c in t.children():
                inst(c)

    for e in allx:
        inst(e)
    return s


def _has_quantifier(e):
    seen, stack = set(), [e]
    while stack:
        t = stack.pop()
        if t.get_id() in seen:
            continue
        seen.add(t.get_id())
        if z3.is_quantifier(t):
            return True
        if z3.is_app(t):
            stack.extend(t.children())
    return False


def _candidate(pc, goal, scope, timeout_s, len_consts):
    """model of (pc and not goal) with every sequence length <= scope, range-guarded quantifiers
    expanded and injection axioms ground-instantiated; None if none is found"""
    s2 = z3.Solver()
    s2.set("timeout", int(min(timeout_s, 10.0) * 1000))
    ground = []
    for a in _smt2(pc, goal).assertions():
        if z3.is_quantifier(a) and a.var_sort(0) != z3.IntSort():
            continue  # background injection axioms: instantiated on ground terms below
        ground.append(expand_quantifiers(a, scope))
    for a in ground:
        s2.add(a)
    seen = set()

    def inst(t):
        if t.get_id() in seen:
            return
        seen.add(t.get_id())
        if z3.is_app(t):
            nm = t.decl().name()
            if nm == "u_of_str":
                s2.add(EN.str_U(t) == t.arg(0))
                s2.add(EN._not_special(t))
            elif nm == "u_of_int":
                s2.add(EN.int_U(t) == t.arg(0))
                s2.add(EN._not_special(t))
            elif nm == "Path":
                s2.add(EN.unPath_U(t) == t.arg(0))
            for c in t.children():
                inst(c)

    for a in ground:
        inst(a)
    for n in len_consts:
        s2.add(n <= scope)
    if s2.check() == z3.sat:
        return s2.model()
    return None


def discharge(pc, goal, timeout_s=10.0, len_consts=()):
    """-> (status, backend, time_s, model|None)   status: discharged|refuted|unknown"""
    t0 = time.time()
    if goal is True:
        return "discharged", "path-enumeration", 0.0, None
    if goal is False:
        # refuted iff the path is feasible
        s = z3.Solver()
        s.set("timeout", int(timeout_s * 1000))
        for b in EN.background_for(pc):
            s.add(b)
        for p in pc:
            if p is not True:
                s.add(p)
        r = s.check()
        if r == z3.unsat:
            return "discharged", "z3(infeasible path)", time.time() - t0, None
        if r == z3.sat:
            return "refuted", "z3", time.time() - t0, s.model()
        # the quantified injection axioms can make z3 answer `unknown` on a satisfiable
        # path condition: retry with those axioms instantiated on the ground terms only
        s2 = _ground_solver(pc, None, timeout_s)
        if s2 is not None and s2.check() == z3.sat:
            return "refuted", "z3(ground axioms)", time.time() - t0, s2.model()
        # quantified path condition: fall through to the small-scope candidate search below
        # (a candidate only counts if it replays natively)
        goal = z3.BoolVal(False)
        for scope in (1, 2, 3):
            cand = _candidate(pc, goal, scope, timeout_s, len_consts)
            if cand is not None:
                return "unknown", f"z3 (candidate path witness in scope<={scope})", time.time() - t0, cand
        return "unknown", "z3", time.time() - t0, None
    goal = lift(goal)
    # fast lane: E-matching only (no MBQI) — decides most valid VCs in milliseconds
    s_q = _smt2(pc, goal)
    s_q.set("timeout", int(min(timeout_s, 5.0) * 1000))
    s_q.set("smt.mbqi", False)
    if s_q.check() == z3.unsat:
        return "discharged", "z3(ematching)", time.time() - t0, None
    s = _smt2(pc, goal)
    s.set("timeout", int(timeout_s * 1000))
    r = s.check()
    if r == z3.unsat:
        return "discharged", "z3", time.time() - t0, None
    if r == z3.sat:
        return "refuted", "z3", time.time() - t0, s.model()
    # z3 gave up: retry on the cone of influence of the goal (fewer quantified premises)
    sliced = EN.cone_of_influence(pc, goal)
    if len(sliced) < len([p for p in pc if p is not True]):
        for mbqi in (False, True):
            s_e = _smt2(sliced, goal)
            s_e.set("timeout", int(timeout_s * 1000))
            s_e.set("smt.mbqi", mbqi)
            if s_e.check() == z3.unsat:
                return "discharged", "z3(sliced)", time.time() - t0, None
    # then the other installed solvers on the same query: z3 4.8.12 (different quantifier
    # heuristics than the 5.1 wheel) and cvc5
    try:
        txt = _smt2(pc, goal).to_smt2().replace("(check-sat)", "")
    except Exception:
        txt = None
    if txt is not None:
        r1 = run_z3_old(txt, timeout_s)
        if r1 == "unsat":
            return "discharged", "z3-4.8.12", time.time() - t0, None
        r2 = run_cvc5(txt, timeout_s)
        if r2 == "unsat":
            return "discharged", "cvc5", time.time() - t0, None
        if r2 == "sat" or r1 == "sat":
            return "refuted", "cvc5" if r2 == "sat" else "z3-4.8.12", time.time() - t0, None
    # Both solvers gave up on the unbounded query (typically: the goal is false and the
    # quantified premises defeat model construction).  Search for a *candidate*
    # counterexample in a small scope with the range-guarded quantifiers expanded.  The
    # candidate is NOT a verdict: it only counts if it replays natively on the real code.
    for scope in (1, 2, 3):
        cand = _candidate(pc, goal, scope, timeout_s, len_consts)
        if cand is not None:
            return "unknown", f"z3+cvc5 (candidate counterexample in scope<={scope})", time.time() - t0, cand
    return "unknown", "z3+cvc5", time.time() - t0, None


def verify(ctx, contract: Contract, timeout_s=None):
    """symbolically execute the real function against its contract, discharge all
    obligations, record them in ctx.  Returns Result."""
    timeout_s = timeout_s or ctx.pick(10.0, 60.0)
    fn = locate(contract.file, contract.qualname)
    ctx.add_function(fn.describe())
    ctx.dropped.extend(f"{fn.qualname}: {d}" for d in fn.dropped)
    E = Engine(fn, contract)
    st = St()
    res = Result(contract, fn, E, [], [])
    try:
        # parameters
        for name, kind in contract.params.items():
            st.env[name] = E.materialize(st, E.fresh_kind(kind, name))
        st.ghost["entry"] = dict(st.env)
        if contract.setup:
            contract.setup(E, st)
        for name, text in contract.requires:
            st.pc.append(lift(E.eval_spec(text, st)))
        # vacuity: requires satisfiable
        sat = E.feasible(st)
        _record(ctx, res, fn, "vacuity.requires-satisfiable", "auxiliary", "discharged" if sat else "refuted", "z3", 0.0, "requires is satisfiable")
        if not sat:
            raise Unsupported("contradictory requires (vacuous contract)")
        entry_env = dict(st.env)
        paths = E.run(st)
        res.paths = paths
        n_ret = 0
        for s, out in paths:
            s.env["__entry__"] = entry_env
            if out.kind in ("return", "next"):
                n_ret += 1
                extra = {"result": out.val}
                for name, role, text in contract.ensures:
                    goal = text(E, s, out) if callable(text) else E.eval_spec(text, s, extra)
                    E.obligations.append(EN.Obligation(f"ensures.{name}", role, list(s.pc), goal, "/".join(s.decisions), "return"))
            elif out.kind == "raise":
                for name, role, fn_ in contract.raises:
                    E.obligations.append(EN.Obligation(f"raises.{name}", role, list(s.pc), fn_(E, s, out.val), "/".join(s.decisions), "raise"))
                if not contract.allow_raise and not contract.raises:
                    E.obligations.append(EN.Obligation("no-raise", contract.no_raise_role, list(s.pc), False, "/".join(s.decisions), "raise"))
            else:
                raise Unsupported(f"path ends with {out.kind}")
            for name, role, fn_ in contract.exits:
                E.obligations.append(EN.Obligation(f"exit.{name}", role, list(s.pc), fn_(E, s, out), "/".join(s.decisions), out.kind))
        if not contract.allow_raise and not contract.raises and not any(o.kind == "raise" for _, o in paths):
            _record(ctx, res, fn, "no-raise.no-exceptional-exit-path", contract.no_raise_role, "discharged", "path-enumeration", 0.0, f"none of the {len(paths)} explored paths ends in an exception")
        if len(paths) < contract.min_paths:
            raise Unsupported(f"only {len(paths)} paths explored, contract expects >= {contract.min_paths}")
        _record(ctx, res, fn, "vacuity.paths-explored", "auxiliary", "discharged", "path-enumeration", 0.0, f"{len(paths)} feasible paths, {n_ret} normal exits")
        # reachability (cover) check: an `assert False` placed at an exit must be REFUTED, i.e.
        # at least one exit path has a satisfiable path condition under the requires
        reach = False
        for s, out in paths:
            st_, _, _, m_ = discharge(s.pc, False, 5.0, E.len_consts)
            # a model of the path condition - or, for quantified path conditions, a small-scope
            # model with the range-guarded quantifiers expanded - shows the exit is not vacuous
            if st_ == "refuted" or (st_ == "unknown" and m_ is not None):
                reach = True
                break
        _record(ctx, res, fn, "vacuity.exit-reachable", "auxiliary", "discharged" if reach else "refuted", "z3", 0.0, "assert False at an exit is refuted (the contract is not vacuous)")
        if not reach:
            raise Unsupported("no exit path is reachable under the requires (vacuous verification)")
    except Unsupported as e:
        res.unsupported = str(e)
        ctx.undecide(f"{fn.qualname}", f"UNSUPPORTED: {e}")
        return res
    except (KeyError, IndexError) as e:
        # a clause names a local variable / event the function no longer has (e.g. after a harmless renaming): the contract
        # has to be brought up to date; that is undecided, neither a violation nor a crash
        res.unsupported = f"contract out of date: {type(e).__name__} {e}"
        ctx.undecide(f"{fn.qualname}", f"UNSUPPORTED: a contract clause refers to {e!s}, which the function no longer has (contract out of date)")
        return res
    for t in sorted(E.used_trusted) + list(contract.trusted):
        ctx.trust(t)
    for ob in E.obligations:
        status, backend, dt, model = discharge(ob.pc, ob.goal, timeout_s, E.len_consts)
        goal_txt = str(ob.goal) if not isinstance(ob.goal, bool) else repr(ob.goal)
        rec = _record(ctx, res, fn, ob.clause, ob.role, status, backend, dt, goal_txt[:200], ob.label)
        rec["model"] = model
        rec["ob"] = ob
    return res


def _record(ctx, res, fn, clause, role, status, backend, dt, goal_txt, label=""):
    h = hashlib.blake2b(label.encode(), digest_size=4).hexdigest() if label else "0"
    rec = {
        "id": f"{fn.qualname}.{clause}.{h}",
        "function": f"{fn.file}:{fn.qualname}",
        "clause": clause,
        "role": role,
        "status": status,
        "backend": backend,
        "time_s": round(dt, 4),
        "goal": goal_txt,
        "path": label,
    }
    res.obligations.append(rec)
    ctx.add_obligation({k: v for k, v in rec.items()})
    return rec


def summarize(ctx, res, replay=None, classify=None):
    """turn refuted / unknown obligations into verdicts.
    property-level refuted -> ctx.fail (replay(rec) may supply a natively confirmed input)
    auxiliary refuted / unknown -> undecided"""
    for rec in res.obligations:
        if rec["status"] == "discharged":
            continue
        role = rec["role"]
        if rec["status"] == "unknown":
            # a candidate counterexample from the small-scope search counts only if it
            # replays natively against the real code
            if rec.get("model") is not None and role.startswith("property:") and replay is not None:
                try:
                    case, found = replay(rec)
                except Exception as e:
                    case, found = {"replay_error": repr(e)}, False
                if found:
                    rec["status"] = "refuted"
                    for o in ctx.obligations:
                        if o["id"] == rec["id"]:
                            o["status"] = "refuted"
                    klass = classify(rec, case) if classify else None
                    ctx.fail(klass, f"obligation {rec['id']} fails: small-scope counterexample replayed on the real code: {rec['goal'][:120]}", case, obligation=rec["id"], solver_output=str(rec["model"])[:3000], found_input=True)
                    continue
            ctx.undecide(rec["id"], "solver returned unknown/timeout")
            continue
        # refuted
        model_txt = None
        if rec.get("model") is not None:
            try:
                model_txt = str(rec["model"])[:3000]
            except Exception:
                model_txt = "<model unavailable>"
        if role.startswith("property:"):
            case, found = None, False
            if replay is not None:
                try:
                    case, found = replay(rec)
                except Exception as e:  # replay machinery failure is not a verdict
                    case, found = {"replay_error": repr(e)}, False
            klass = classify(rec, case) if classify else None
            ctx.fail(
                klass,
                f"obligation {rec['id']} refuted by {rec['backend']}: {rec['goal'][:160]}",
                case if case is not None else {"path": rec["path"]},
                obligation=rec["id"],
                solver_output=model_txt,
                found_input=found,
            )
        else:
            # an invariant / helper obligation broke.  That alone refutes the proof, not the
            # property; but if the solver's model replays natively as a property failure
            # it is reported as the violation it is.
            if replay is not None and rec.get("model") is not None:
                try:
                    case, found = replay(rec)
                except Exception as e:
                    case, found = {"replay_error": repr(e)}, False
                if found:
                    klass = classify(rec, case) if classify else None
                    ctx.fail(klass, f"obligation {rec['id']} refuted by {rec['backend']} and the counterexample fails the property on the real code: {rec['goal'][:120]}", case, obligation=rec["id"], solver_output=model_txt, found_input=True)
                    continue
            ctx.undecide(rec["id"], f"auxiliary obligation refuted ({rec['goal'][:100]}); the proof broke, the property is not refuted")


def concretize(model, v, st, limit=8):
    """symbolic representation -> concrete Python value under a z3 model"""
    from pyvc.engine import OptV, Ref, SeqV, HList, is_z3

    def ev(t):
        r = model.eval(t, model_completion=True)
        if z3.is_int_value(r):
            return r.as_long()
        if z3.is_true(r):
            return True
        if z3.is_false(r):
            return False
        if z3.is_string_value(r):
            return r.as_string()
        return str(r)

    if is_z3(v):
        return ev(v)
    if isinstance(v, OptV):
        return None if ev(lift(v.isnone)) else concretize(model, v.val, st, limit)
    if isinstance(v, tuple):
        return tuple(concretize(model, x, st, limit) for x in v)
    if isinstance(v, Ref) and isinstance(st.heap.get(v.n), HList):
        v = st.heap[v.n].seq
    if isinstance(v, SeqV):
        if v.items is not None:
            return [concretize(model, x, st, limit) for x in v.items]
        n = ev(lift(v.length))
        n = n if isinstance(n, int) else 0
        return [concretize(model, v.get(i), st, limit) for i in range(max(0, min(n, limit)))]
    return v


def spec_functions(module):
    """expose the functions of a /verif/spec module to contract expressions: natively they
    are plain Python; symbolically their source is re-parsed and inlined by the engine"""
    import ast
    import inspect

    from pyvc.engine import FuncV

    src = inspect.getsource(module)
    tree = ast.parse(src)
    env = {}
    for n in tree.body:
        if isinstance(n, ast.FunctionDef):
            env[n.name] = FuncV(n, env, n.name)
    return env
