#!/bin/bash
# Builds the overlay venv /verif/.venv offline (python 3.12 of /venv + solver wheels).
set -e
cd "$(dirname "$0")"
if [ -x .venv/bin/python ] && .venv/bin/python -c 'import z3, cvc5, jsonschema, pydra' 2>/dev/null; then
  exit 0
fi
rm -rf .venv
/venv/bin/python -m venv .venv
PIP_NO_INDEX=1 .venv/bin/pip install -q --no-index --find-links /opt/veriftools/wheels z3-solver cvc5 crosshair-tool deal icontract jsonschema >/dev/null
SP=$(.venv/bin/python -c 'import sysconfig; print(sysconfig.get_paths()["purelib"])')
echo "import site; site.addsitedir('/venv/lib/python3.12/site-packages')" > "$SP/_venv_overlay.pth"
.venv/bin/python -c 'import z3, cvc5, jsonschema; print("verif venv ok")'
