"""Spec functions for C11/C12 (cache lookup), written from the property text.
Symbolically, `loadable`, `.exists()`, `.stat()` and `open` are the same uninterpreted
file-system observers the contract of load_result uses; natively they are the real ones."""


def complete(location, checksum):
    # a listed cache holds a complete result for this identity
    rf = location / checksum / "_result.pklz"
    return (location / checksum).exists() and rf.exists() and rf.stat().st_size > 0 and loadable(open(rf, "rb"))
