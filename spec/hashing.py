"""Oracles, value grammars and finding-class predicates for the content-hashing /
cache-identity properties C06, C07, C08, C09.

Everything here is written from the property statements in /verif/properties.jsonl and
from docs/source/explanation/hashing-caching.rst, NOT from pydra/utils/hash.py:

* a value is described by a JSON-able *descriptor* (nested lists).  `build(desc, order)`
  constructs a fresh Python object from it (no sharing between sub-objects); `order`
  permutes the insertion order of every dict / set / object-attribute collection.
* `strict_key(desc)`  = the abstract value (type + content; sets as mathematical sets,
  dicts as finite maps).  Two builds with the same strict key MUST hash equally.
* `loose_key(desc)`   = strict key with the distinctions the property text leaves open
  erased (0.0 / -0.0, NaN payloads, the *name* of a function with identical source,
  two spellings of the same typing construct, closure cells inside C08 - C06 owns these).
  Two values with different loose keys MUST hash differently.
  Between "same loose, different strict" every behaviour is accepted.
* `collision_class` / `instability_class` are the NARROW class predicates for findings.
"""

from __future__ import annotations

import itertools
import os
import pathlib
import typing as ty

import attrs

try:  # numpy is part of the bounded grammar but the spec must import without it
    import numpy as np
except ImportError:  # pragma: no cover
    np = None


# =============================================================================== isolation
import contextlib  # noqa: E402
import shutil  # noqa: E402
import tempfile  # noqa: E402


@contextlib.contextmanager
def isolated_hash_cache(prefix="vf_hash_"):
    """every Cache() of pydra creates/uses the persistent file-hash store named by $PYDRA_HASH_CACHE
    (default: a directory in the user's home).  Point it at a temp dir for the duration of a check."""
    tmp = tempfile.mkdtemp(prefix=prefix)
    old = os.environ.get("PYDRA_HASH_CACHE")
    os.environ["PYDRA_HASH_CACHE"] = os.path.join(tmp, "hashcache")
    try:
        yield pathlib.Path(tmp)
    finally:
        if old is None:
            os.environ.pop("PYDRA_HASH_CACHE", None)
        else:
            os.environ["PYDRA_HASH_CACHE"] = old
        shutil.rmtree(tmp, ignore_errors=True)


# =============================================================================== classes
# attrs / plain / slots classes used as object values AND as `type` values


@attrs.define
class AttrsA:
    x: ty.Any = None
    y: ty.Any = None


@attrs.define
class AttrsB:  # same fields as AttrsA, different class
    x: ty.Any = None
    y: ty.Any = None


class PlainA:
    def __init__(self, **kw):
        for k, v in kw.items():
            setattr(self, k, v)


class PlainB:  # same as PlainA, different class
    def __init__(self, **kw):
        for k, v in kw.items():
            setattr(self, k, v)


class SlotsA:
    __slots__ = ("x", "y")

    def __init__(self, x=None, y=None):
        self.x, self.y = x, y


# classes used only as `type` values ------------------------------------------------
class MarkerCat:  # differ from MarkerDog in NAME only
    pass


class MarkerDog:
    pass


class CallOne:  # differ from CallTwo only in the body of a dunder method
    def __call__(self):
        return 1


class CallTwo:
    def __call__(self):
        return 2


class AttrOne:  # differ in a public class attribute
    a = 1


class AttrTwo:
    a = 2


class MethOne:  # differ in the body of a public method
    def m(self):
        return 1


class MethTwo:
    def m(self):
        return 2


class SubOfAttrOne(AttrOne):  # differ from SubOfAttrTwo in the base class only
    pass


class SubOfAttrTwo(AttrTwo):
    pass


CLASSES = {c.__name__: c for c in (AttrsA, AttrsB, PlainA, PlainB, SlotsA)}

# =============================================================================== functions
# module level so that inspect.getsource works in every process that imports this module


def f_add1(x):
    return x + 1


def f_add2(x):
    return x + 2


def g_add1(x):  # same arguments and body as f_add1, other name: property silent -> open
    return x + 1


def f_def1(x, y=1):
    return x + y


def f_def2(x, y=2):
    return x + y


def f_kw1(x, *, k=1):
    return x + k


def f_two(x, y):
    return x + y


def f_two_swapped(y, x):
    return x + y


LAM_ADD1 = lambda x: x + 1  # noqa: E731
LAM_ADD2 = lambda x: x + 2  # noqa: E731
LAM_ADD1_AGAIN = lambda x: x + 1  # noqa: E731  (same source as LAM_ADD1: open)
LAM_INLINE = [lambda x: x * 3, lambda x: x * 4]


def make_adder(k):
    def adder(x):
        return x + k

    return adder


CLOSURE_1 = make_adder(1)
CLOSURE_2 = make_adder(2)

# name -> (object, equivalence id used by loose_key)
FUNCS = {
    "f_add1": (f_add1, "add1"),
    "f_add2": (f_add2, "add2"),
    "g_add1": (g_add1, "add1"),
    "f_def1": (f_def1, "def1"),
    "f_def2": (f_def2, "def2"),
    "f_kw1": (f_kw1, "kw1"),
    "f_two": (f_two, "two"),
    "f_two_swapped": (f_two_swapped, "two_swapped"),
    "LAM_ADD1": (LAM_ADD1, "lam_add1"),
    "LAM_ADD2": (LAM_ADD2, "lam_add2"),
    "LAM_ADD1_AGAIN": (LAM_ADD1_AGAIN, "lam_add1"),
    "LAM_INLINE0": (LAM_INLINE[0], "lam_mul3"),
    "LAM_INLINE1": (LAM_INLINE[1], "lam_mul4"),
    # closures: the captured value is a "semantically relevant aspect" by C06's statement; C08
    # only speaks of "type or content", so inside C08 the pair is left open (same equiv id)
    "CLOSURE_1": (CLOSURE_1, "closure_adder"),
    "CLOSURE_2": (CLOSURE_2, "closure_adder"),
    "os.path.join": (os.path.join, "os.path.join"),
    "os.path.split": (os.path.split, "os.path.split"),
    "len": (len, "len"),
    "abs": (abs, "abs"),
}


def _types_table():
    from fileformats.generic import File, Directory

    t = {
        # builtin / stdlib classes
        "int": (int, "int"),
        "float": (float, "float"),
        "str": (str, "str"),
        "bool": (bool, "bool"),
        "bytes": (bytes, "bytes"),
        "complex": (complex, "complex"),
        "list": (list, "list"),
        "tuple": (tuple, "tuple"),
        "dict": (dict, "dict"),
        "set": (set, "set"),
        "frozenset": (frozenset, "frozenset"),
        "NoneType": (type(None), "NoneType"),
        "object": (object, "object"),
        "type": (type, "type"),
        "pathlib.Path": (pathlib.Path, "Path"),
        "pathlib.PurePath": (pathlib.PurePath, "PurePath"),
        "File": (File, "File"),
        "Directory": (Directory, "Directory"),
        # typing constructs; the two spellings of one construct share an equivalence id (open)
        "ty.Any": (ty.Any, "Any"),
        "ty.List[int]": (ty.List[int], "list[int]"),
        "ty.List[str]": (ty.List[str], "list[str]"),
        "list[int]": (list[int], "list[int]"),
        "list[str]": (list[str], "list[str]"),
        "list[list[int]]": (list[list[int]], "list[list[int]]"),
        "ty.List[ty.List[int]]": (ty.List[ty.List[int]], "list[list[int]]"),
        "ty.Dict[str,int]": (ty.Dict[str, int], "dict[str,int]"),
        "ty.Dict[int,str]": (ty.Dict[int, str], "dict[int,str]"),
        "dict[str,int]": (dict[str, int], "dict[str,int]"),
        "dict[int,str]": (dict[int, str], "dict[int,str]"),
        "ty.Tuple[int,str]": (ty.Tuple[int, str], "tuple[int,str]"),
        "ty.Tuple[str,int]": (ty.Tuple[str, int], "tuple[str,int]"),
        "ty.Tuple[int,...]": (ty.Tuple[int, ...], "tuple[int,...]"),
        "ty.Tuple[int]": (ty.Tuple[int], "tuple[int]"),
        "tuple[int,str]": (tuple[int, str], "tuple[int,str]"),
        "tuple[str,int]": (tuple[str, int], "tuple[str,int]"),
        "ty.Union[int,str]": (ty.Union[int, str], "int|str"),
        "ty.Union[str,int]": (ty.Union[str, int], "int|str"),
        "int|str": (int | str, "int|str"),
        "ty.Optional[int]": (ty.Optional[int], "int|None"),
        "int|None": (int | None, "int|None"),
        "ty.Optional[str]": (ty.Optional[str], "str|None"),
        "ty.Callable[[int],str]": (ty.Callable[[int], str], "Callable[[int],str]"),
        "ty.Callable[[str],int]": (ty.Callable[[str], int], "Callable[[str],int]"),
        # user classes
        "AttrsA": (AttrsA, "AttrsA"),
        "AttrsB": (AttrsB, "AttrsB"),
        "PlainA": (PlainA, "PlainA"),
        "PlainB": (PlainB, "PlainB"),
        "SlotsA": (SlotsA, "SlotsA"),
        "MarkerCat": (MarkerCat, "MarkerCat"),
        "MarkerDog": (MarkerDog, "MarkerDog"),
        "CallOne": (CallOne, "CallOne"),
        "CallTwo": (CallTwo, "CallTwo"),
        "AttrOne": (AttrOne, "AttrOne"),
        "AttrTwo": (AttrTwo, "AttrTwo"),
        "MethOne": (MethOne, "MethOne"),
        "MethTwo": (MethTwo, "MethTwo"),
        "SubOfAttrOne": (SubOfAttrOne, "SubOfAttrOne"),
        "SubOfAttrTwo": (SubOfAttrTwo, "SubOfAttrTwo"),
    }
    if np is not None:
        t.update(
            {
                "np.ndarray": (np.ndarray, "np.ndarray"),
                "np.int32": (np.int32, "np.int32"),
                "np.float32": (np.float32, "np.float32"),
            }
        )
    return t


_TYPES = None


def TYPES():
    global _TYPES
    if _TYPES is None:
        _TYPES = _types_table()
    return _TYPES


# =============================================================================== descriptors
# ["none"] ["ellipsis"] ["bool",b] ["int",n] ["float",hex] ["complex",hexre,hexim] ["str",s]
# ["bytes",latin1] ["range",a,b,c] ["list",[..]] ["tuple",[..]] ["set",[..]] ["frozenset",[..]]
# ["dict",[[k,v],..]] ["path",cls,s] ["obj",cls,[[attr,d],..]] ["type",name] ["func",name]
# ["nd",dtype,shape,values,layout] ["npscalar",dtype,value] ["file",name,content] ["task",name,[[f,d]..]]


def d_of(v):
    """descriptor of a plain Python value (scalars and builtin containers only)"""
    if v is None:
        return ["none"]
    if v is Ellipsis:
        return ["ellipsis"]
    if isinstance(v, bool):
        return ["bool", v]
    if isinstance(v, int):
        return ["int", v]
    if isinstance(v, float):
        return ["float", v.hex()]
    if isinstance(v, complex):
        return ["complex", v.real.hex(), v.imag.hex()]
    if isinstance(v, str):
        return ["str", v]
    if isinstance(v, bytes):
        return ["bytes", v.decode("latin-1")]
    if isinstance(v, range):
        return ["range", v.start, v.stop, v.step]
    if isinstance(v, pathlib.PurePath):
        return ["path", type(v).__name__, str(v)]
    if isinstance(v, (list, tuple, set, frozenset)):
        items = list(v)
        if isinstance(v, (set, frozenset)):
            items = sorted(items, key=repr)
        return [type(v).__name__, [d_of(i) for i in items]]
    if isinstance(v, dict):
        return ["dict", [[d_of(k), d_of(x)] for k, x in v.items()]]
    raise TypeError(f"no descriptor for {type(v)}")


def _perm(items, order):
    items = list(items)
    n = len(items)
    if n < 2 or order == 0:
        return items
    if order == 1:
        return items[::-1]
    k = order - 1  # order 2 -> rotate by 1, order 3 -> rotate by 2 ...
    k %= n
    return items[k:] + items[:k]


def build(desc, order=0, base=None):
    """a fresh Python object for `desc`; `order` permutes every unordered collection's insertion
    order; `base` is the directory in which ["file", ...] descriptors live"""
    k = desc[0]
    if k == "none":
        return None
    if k == "ellipsis":
        return Ellipsis
    if k == "bool":
        return bool(desc[1])
    if k == "int":
        return int(desc[1])
    if k == "float":
        return float.fromhex(desc[1])
    if k == "complex":
        return complex(float.fromhex(desc[1]), float.fromhex(desc[2]))
    if k == "str":
        return "".join(list(desc[1]))  # a new str object where CPython allows
    if k == "bytes":
        return desc[1].encode("latin-1")
    if k == "range":
        return range(desc[1], desc[2], desc[3])
    if k == "list":
        return [build(d, order, base) for d in desc[1]]
    if k == "tuple":
        return tuple(build(d, order, base) for d in desc[1])
    if k in ("set", "frozenset"):
        items = [build(d, order, base) for d in _perm(desc[1], order)]
        if k == "frozenset":
            return frozenset(items)  # inserts in iteration order
        s = set()
        for i in items:
            s.add(i)
        return s
    if k == "dict":
        out = {}
        for kd, vd in _perm(desc[1], order):
            out[build(kd, order, base)] = build(vd, order, base)
        return out
    if k == "path":
        return getattr(pathlib, desc[1])(desc[2])
    if k == "obj":
        cls = CLASSES[desc[1]]
        pairs = _perm(desc[2], order)
        return cls(**{a: build(d, order, base) for a, d in pairs})  # PlainX: attribute insertion order = kw order
    if k == "type":
        return TYPES()[desc[1]][0]
    if k == "func":
        return FUNCS[desc[1]][0]
    if k == "nd":
        return build_array(desc)
    if k == "npscalar":
        return np.dtype(desc[1]).type(desc[2])
    if k == "file":
        from fileformats.generic import File

        return File(pathlib.Path(base) / desc[1])
    if k == "task":
        return TASKS()[desc[1]](**{a: build(d, order, base) for a, d in desc[2]})
    raise ValueError(f"unknown descriptor kind {k!r}")


def build_array(desc):
    _, dtype, shape, values, layout = desc
    shape = tuple(shape)
    if dtype == "object":
        a = np.empty(len(values), dtype=object)
        for i, v in enumerate(values):
            a[i] = build(v)
        a = a.reshape(shape)
    else:
        vals = [float.fromhex(v) if isinstance(v, str) else v for v in values]
        a = np.array(vals, dtype=dtype).reshape(shape)
    if layout == "C":
        return np.ascontiguousarray(a) if a.ndim else a
    if layout == "F":
        return np.asfortranarray(a) if a.ndim else a
    if layout == "strided":  # a non-contiguous view with the same content
        if a.ndim == 0:
            return a
        big = np.zeros(a.shape[:-1] + (max(1, a.shape[-1]) * 2,), dtype=a.dtype)
        view = big[..., ::2][..., : a.shape[-1]]
        view[...] = a
        return view
    raise ValueError(layout)


def _key(desc, loose):
    k = desc[0]
    if k in ("none", "ellipsis"):
        return (k,)
    if k == "float":
        f = float.fromhex(desc[1])
        if loose:
            if f != f:
                return ("float", "nan")
            if f == 0.0:
                return ("float", (0.0).hex())
        return ("float", desc[1])
    if k == "complex":
        parts = []
        for h in desc[1:3]:
            f = float.fromhex(h)
            parts.append((0.0).hex() if loose and f == 0.0 else ("nan" if loose and f != f else h))
        return ("complex",) + tuple(parts)
    if k in ("bool", "int", "str", "bytes"):
        return (k, repr(desc[1]))
    if k == "range":
        return ("range", desc[1], desc[2], desc[3])
    if k in ("list", "tuple"):
        return (k, tuple(_key(d, loose) for d in desc[1]))
    if k in ("set", "frozenset"):
        return (k, tuple(sorted({_key(d, loose) for d in desc[1]}, key=repr)))
    if k == "dict":
        return (k, tuple(sorted(((_key(a, loose), _key(b, loose)) for a, b in desc[1]), key=repr)))
    if k == "path":
        return ("path", desc[1], desc[2])
    if k == "obj":
        return ("obj", desc[1], tuple(sorted(((a, _key(d, loose)) for a, d in desc[2]), key=repr)))
    if k == "type":
        return ("type", TYPES()[desc[1]][1] if loose else desc[1])
    if k == "func":
        return ("func", FUNCS[desc[1]][1] if loose else desc[1])
    if k == "nd":
        vals = tuple(v if isinstance(v, str) else (float(v).hex() if isinstance(v, float) else repr(v)) for v in desc[3]) if desc[1] != "object" else tuple(
            _key(v, loose) for v in desc[3]
        )
        return ("nd", desc[1], tuple(desc[2]), vals)  # layout is not part of the value
    if k == "npscalar":
        return ("npscalar", desc[1], repr(desc[2]))
    if k == "file":
        return ("file", desc[1], desc[2])
    if k == "task":
        return ("task", desc[1], tuple(sorted(((a, _key(d, loose)) for a, d in desc[2]), key=repr)))
    raise ValueError(k)


def strict_key(desc):
    return _key(desc, False)


def loose_key(desc):
    return _key(desc, True)


def has_unordered(desc):
    """does a build of desc depend on `order` (an unordered collection with >= 2 entries)?"""
    k = desc[0]
    if k in ("set", "frozenset", "list", "tuple"):
        return (k in ("set", "frozenset") and len(desc[1]) >= 2) or any(has_unordered(d) for d in desc[1])
    if k == "dict":
        return len(desc[1]) >= 2 or any(has_unordered(a) or has_unordered(b) for a, b in desc[1])
    if k in ("obj", "task"):
        return (k == "obj" and desc[1].startswith("Plain") and len(desc[2]) >= 2) or any(has_unordered(d) for _, d in desc[2])
    if k == "nd" and desc[1] == "object":
        return any(has_unordered(v) for v in desc[3])
    return False


def n_orders(desc):
    return 3 if has_unordered(desc) else 1


def subvalues(v, _seen=None):
    """every Python object reachable as a container element / attribute of a built value"""
    yield v
    if isinstance(v, (list, tuple, set, frozenset)):
        for i in v:
            yield from subvalues(i)
    elif isinstance(v, dict):
        for a, b in v.items():
            yield from subvalues(a)
            yield from subvalues(b)
    elif np is not None and isinstance(v, np.ndarray) and v.dtype == object:
        for i in v.ravel():
            yield from subvalues(i)
    elif type(v).__name__ in CLASSES:
        names = getattr(v, "__slots__", None) or list(getattr(v, "__dict__", {}))
        for n in names:
            yield from subvalues(getattr(v, n))
    elif hasattr(v, "_xor") and hasattr(v, "_task_type"):  # a pydra task used as a value
        yield from subvalues(v._xor)
        for n in list(v):
            yield from subvalues(getattr(v, n))


def _lt(a, b):
    try:
        return bool(a < b)
    except TypeError:
        return None


def incomparable_pairs(coll):
    """pairs of elements that Python's `<` leaves unordered in both directions (no TypeError):
    `sorted` is only specified for total orders, so nothing fixes their relative position"""
    items = list(coll)
    out = []
    for a, b in itertools.combinations(items, 2):
        ab, ba = _lt(a, b), _lt(b, a)
        if ab is False and ba is False and not (a == b):
            out.append((a, b))
        elif ab is False and ba is False and a != a:
            out.append((a, b))
    return out


def unorderable(coll):
    """elements whose comparison raises TypeError: sorting them is refused"""
    items = list(coll)
    return any(_lt(a, b) is None for a, b in itertools.combinations(items, 2))


def has_incomparable_set(value):
    """class predicate 'set-elements-not-totally-ordered': the value contains a set/frozenset with two
    elements neither of which is `<` the other (e.g. two frozensets that are not subsets of each other, NaN)"""
    for s in subvalues(value):
        if isinstance(s, (set, frozenset)) and len(s) >= 2 and incomparable_pairs(s):
            return True
    return False


def has_incomparable_keys(value):
    """class predicate 'mapping-keys-not-totally-ordered': a dict whose keys are not totally ordered by `<`"""
    for s in subvalues(value):
        if isinstance(s, dict) and len(s) >= 2 and incomparable_pairs(s.keys()):
            return True
    return False


def has_unorderable_collection(value):
    """allowed refusal: a set, or the key set of a dict / object namespace, whose elements cannot be compared at all
    (TypeError from `<`) has no canonical order; the property does not promise a hash for it"""
    for s in subvalues(value):
        if isinstance(s, (set, frozenset)) and unorderable(s):
            return True
        if isinstance(s, dict) and unorderable(s.keys()):
            return True
    return False


def task_with_incomparable_xor(value):
    for s in subvalues(value):
        if hasattr(s, "_xor") and hasattr(s, "_task_type") and len(s._xor) >= 2 and incomparable_pairs(s._xor):
            return True
    return False


# =============================================================================== finding classes


def _public_ns(c):
    return {n: v for n, v in vars(c).items() if not (n.startswith("__") and n.endswith("__"))}


def _class_pair_class(c1, c2):
    """two distinct user classes (defined in this module) whose public namespace, annotations and bases are
    equal: they differ in their name only, or (also) in dunder members such as __init__/__call__"""
    import inspect
    import types as _t

    if not (isinstance(c1, type) and isinstance(c2, type)) or c1 is c2:
        return None
    if c1.__module__ != __name__ or c2.__module__ != __name__:
        return None

    def src(f):
        try:
            return inspect.getsource(f)
        except (OSError, TypeError):
            return repr(f)

    def same(a, b):
        if a is b:
            return True
        if isinstance(a, _t.MemberDescriptorType) and isinstance(b, _t.MemberDescriptorType):
            return a.__name__ == b.__name__
        if isinstance(a, _t.FunctionType) and isinstance(b, _t.FunctionType):
            return src(a) == src(b)
        try:
            return bool(a == b)
        except Exception:  # noqa
            return False

    n1, n2 = _public_ns(c1), _public_ns(c2)
    if c1.__bases__ != c2.__bases__ or set(n1) != set(n2) or not all(same(n1[n], n2[n]) for n in n1):
        return None
    if getattr(c1, "__annotations__", {}) != getattr(c2, "__annotations__", {}):
        return None

    def dunder(c):
        return {n: v for n, v in vars(c).items() if n.startswith("__") and isinstance(v, _t.FunctionType)}

    d1, d2 = dunder(c1), dunder(c2)
    if set(d1) != set(d2) or any(src(d1[n]).replace(c1.__name__, "") != src(d2[n]).replace(c2.__name__, "") for n in d1):
        if attrs.has(c1) and attrs.has(c2):  # generated methods embed the class name / line numbers
            return "user-classes-differ-only-in-name" if [a.name for a in attrs.fields(c1)] == [a.name for a in attrs.fields(c2)] else None
        return "user-classes-differ-only-in-dunder-members"
    return "user-classes-differ-only-in-name"


def _is_pep585(t):
    import types

    return isinstance(t, types.GenericAlias)


def collision_class(d1, d2):
    """NARROW class of a pair of descriptors with different loose keys that received the same hash
    (None = unclassified -> VIOLATION)."""
    k1, k2 = d1[0], d2[0]
    if k1 == "nd" and k2 == "nd":
        a, b = build_array(d1), build_array(d2)
        if type(a) is type(b) and a.size == b.size and a.dtype != object and b.dtype != object and a.tobytes(order="C") == b.tobytes(order="C"):
            diff = [n for n, x, y in (("shape", a.shape, b.shape), ("dtype", a.dtype, b.dtype)) if x != y]
            if diff:
                return "ndarray-same-bytes-different-" + "-and-".join(diff)
        if a.dtype == object and b.dtype == object and a.shape != b.shape and [strict_key(v) for v in d1[3]] == [strict_key(v) for v in d2[3]]:
            return "ndarray-same-bytes-different-shape"
        return None
    if k1 == "func" and k2 == "func":
        f1, f2 = FUNCS[d1[1]][0], FUNCS[d2[1]][0]
        import types as _t

        if all(isinstance(f, _t.FunctionType) and f.__name__ == "<lambda>" for f in (f1, f2)):
            return "lambda-bodies-differ"
        if all(isinstance(f, _t.BuiltinFunctionType) for f in (f1, f2)):
            return "builtin-functions-differ"
        return None
    if k1 == "type" and k2 == "type":
        t1, t2 = TYPES()[d1[1]][0], TYPES()[d2[1]][0]
        if _is_pep585(t1) and _is_pep585(t2) and ty.get_origin(t1) is ty.get_origin(t2) and ty.get_args(t1) != ty.get_args(t2):
            return "pep585-generic-alias-args-differ"
        return _class_pair_class(t1, t2)
    # the same context around exactly one differing child: the class of the child pair
    if k1 == k2 and k1 in ("list", "tuple") and len(d1[1]) == len(d2[1]):
        diff = [(a, b) for a, b in zip(d1[1], d2[1]) if loose_key(a) != loose_key(b)]
        if len(diff) == 1:
            return collision_class(*diff[0])
    if k1 == k2 == "dict" and len(d1[1]) == len(d2[1]) == 1 and loose_key(d1[1][0][0]) == loose_key(d2[1][0][0]):
        return collision_class(d1[1][0][1], d2[1][0][1])
    if k1 == k2 == "obj" and d1[1] == d2[1] and [a for a, _ in d1[2]] == [a for a, _ in d2[2]]:
        diff = [(a[1], b[1]) for a, b in zip(d1[2], d2[2]) if loose_key(a[1]) != loose_key(b[1])]
        if len(diff) == 1:
            return collision_class(*diff[0])
    return None


def instability_class(desc, base=None):
    """NARROW class of ONE abstract value whose hash varied with insertion order / hash seed / session"""
    v = build(desc, 0, base)
    if task_with_incomparable_xor(v):
        return "task-value-with-incomparable-xor-groups"
    if has_incomparable_set(v):
        return "set-elements-not-totally-ordered"
    if has_incomparable_keys(v):
        return "mapping-keys-not-totally-ordered"
    return None


# =============================================================================== C08 grammar


def words(alphabet, maxlen):
    for n in range(maxlen + 1):
        for w in itertools.product(alphabet, repeat=n):
            yield "".join(w)


ADVERSARIAL_STRINGS = ["str:1:a", "int:", "None", "True", "1", "bytes:1:a", "list:(", ")", "}", "\x00"]


def scalar_values(alphabet="a:=,", maxlen=3):
    vals = [None, Ellipsis, True, False]
    vals += [0, 1, -1, 2, 255, 256, 2**31, 2**63 - 1, 2**63, 2**64, -(2**63), -(2**63) - 1, 10**20]
    vals += [0.0, -0.0, 1.0, -1.0, 0.5, 2.0, 1e300, float("inf"), float("-inf"), float("nan")]
    vals += [0j, 1 + 0j, 1j, 1 + 1j]
    vals += [range(0), range(1), range(2), range(1, 3)]
    vals += list(words(alphabet, maxlen)) + [w for w in ADVERSARIAL_STRINGS if not (len(w) <= maxlen and set(w) <= set(alphabet))]
    vals += [w.encode() for w in words(alphabet, maxlen)] + [w.encode() for w in ADVERSARIAL_STRINGS if not (len(w) <= maxlen and set(w) <= set(alphabet))]
    vals += [pathlib.PurePosixPath("a"), pathlib.PurePosixPath("/a"), pathlib.PurePosixPath("a/b"), pathlib.PosixPath("a")]
    return [d_of(v) for v in vals]


def leaf_pool(n):
    pool = [None, True, 1, 1.0, "a", "=", b"a", ","]
    return pool[:n]


def level1(leaves, maxlen=2):
    """containers of depth 1 over the leaf pool"""
    out = []
    for kind in (list, tuple):
        for n in range(maxlen + 1):
            for items in itertools.product(leaves, repeat=n):
                out.append(d_of(kind(items)))
    # sets: no two ==-equal members (1, True, 1.0 would silently merge - content then depends on
    # insertion order by Python's own semantics, not by hashing)
    hashable = list(leaves)
    sets = [()] + [(a,) for a in hashable]
    for a, b in itertools.combinations(hashable, 2):
        if a == b:
            continue
        sets.append((a, b))
    sets += [(1, 2), (2, 3), (1, 2, 3), ("a", "b", "c"), (b"a", b"b")]
    for kind in ("set", "frozenset"):
        for items in sets:
            out.append([kind, [d_of(i) for i in items]])
    keys = ["a", "=", 1, b"a"]
    vals = [None, 1, "a"]
    out.append(["dict", []])
    for k in keys:
        for v in vals:
            out.append(["dict", [[d_of(k), d_of(v)]]])
    for k1, k2 in (("a", "="), (1, 2), (b"a", b"b"), (1, "a")):  # (1,"a") cannot be ordered: allowed refusal
        for v1 in vals:
            for v2 in vals:
                out.append(["dict", [[d_of(k1), d_of(v1)], [d_of(k2), d_of(v2)]]])
    return out


def level2(pool, l1):
    """containers of depth 2: sequences of length 1..2 over leaves + depth-1 containers, dicts with a
    depth-1 container value, sets of hashable depth-1 containers"""
    out = []
    for kind in ("list", "tuple"):
        for a in pool:
            out.append([kind, [a]])
        for a in pool:
            for b in pool:
                out.append([kind, [a, b]])
    for c in l1:
        out.append(["dict", [[d_of("a"), c]]])
    some = l1[:: max(1, len(l1) // 12)]
    for c1 in some:
        for c2 in some:
            out.append(["dict", [[d_of("a"), c1], [d_of("="), c2]]])
    hashable = [c for c in l1 if c[0] in ("tuple", "frozenset")]
    ints_only = [c for c in hashable if all(i[0] == "int" for i in c[1])]
    for kind in ("set", "frozenset"):
        for c in hashable:
            out.append([kind, [c]])
        for a, b in itertools.combinations(ints_only, 2):
            if strict_key(a) != strict_key(b):
                out.append([kind, [a, b]])
    return out


def object_values():
    vals = [d_of(1), d_of("a"), d_of([1])]
    out = []
    for cls in ("AttrsA", "AttrsB", "PlainA", "PlainB", "SlotsA"):
        for x in vals:
            for y in vals:
                out.append(["obj", cls, [["x", x], ["y", y]]])
    out.append(["obj", "PlainA", []])
    out.append(["obj", "PlainB", []])
    out.append(["obj", "PlainA", [["x", d_of(1)]]])
    out.append(["obj", "PlainA", [["y", d_of(1)]]])
    return out


def type_values():
    return [["type", n] for n in TYPES()]


def func_values():
    return [["func", n] for n in FUNCS]


def shapes_upto(nmax, ndim_max=3):
    out = [[]]
    for nd in range(1, ndim_max + 1):
        for s in itertools.product(range(1, nmax + 1), repeat=nd):
            p = 1
            for i in s:
                p *= i
            if p <= nmax:
                out.append(list(s))
    out += [[0], [0, 1], [1, 0], [0, 2], [2, 0]]
    return out


DENORMAL32 = 1.401298464324817e-45  # float32 whose bytes equal int32(1)


def array_values(dtypes=("int32", "float32", "int64"), nmax=4, layouts=("C",)):
    out = []
    for dt in dtypes:
        alpha = [0, 1] if dt.startswith(("int", "uint")) else [0.0, 1.0]
        for shape in shapes_upto(nmax):
            n = 1
            for i in shape:
                n *= i
            for vals in itertools.product(alpha, repeat=n):
                for lay in layouts:
                    if lay != "C" and len(shape) < 2 and not (lay == "strided" and len(shape) == 1 and n > 1):
                        continue
                    out.append(["nd", dt, shape, list(vals), lay])
        if dt == "float32":  # same raw bytes as int32 ones
            for shape in ([1], [2], [1, 2], [2, 1]):
                n = shape[0] * (shape[1] if len(shape) > 1 else 1)
                out.append(["nd", dt, shape, [DENORMAL32] * n, "C"])
    for shape in ([2], [1, 2], [2, 1]):
        out.append(["nd", "object", shape, [d_of(1), d_of("a")], "C"])
        out.append(["nd", "object", shape, [d_of("a"), d_of(1)], "C"])
    for dt in ("int32", "float32", "int64", "float64"):
        for v in (0, 1):
            out.append(["npscalar", dt, v if dt.startswith("int") else float(v)])
    return out


# =============================================================================== structural: serializer tags


def serializer_tags(repo):
    """(with `ast`, nothing imported) the constant prefix of the first bytes chunk every registered
    bytes_repr_* serializer can yield.  Returns rows {serializer, registered_for, tag, kind, file, line}
    with kind in {"static", "template", "dynamic", "delegated"}; a template tag has `{cls}` where the
    serializer formats the class module/name of the value."""
    import ast

    rows = []
    for rel in ("pydra/utils/hash.py", "pydra/compose/base/task.py"):
        src = (pathlib.Path(repo) / rel).read_text()
        tree = ast.parse(src)
        funcs = {}
        for node in ast.walk(tree):
            if isinstance(node, ast.FunctionDef):
                funcs.setdefault(node.name, node)
        registered = {}
        for node in ast.walk(tree):
            if isinstance(node, ast.FunctionDef):
                for dec in node.decorator_list:
                    s = ast.unparse(dec)
                    if s == "singledispatch":
                        registered.setdefault(node.name, []).append("object")
                    elif s == "register_serializer":
                        ann = node.args.args[0].annotation
                        registered.setdefault(node.name, []).append(ast.unparse(ann) if ann is not None else "?")
                    elif s.startswith("register_serializer("):
                        registered.setdefault(node.name, []).append(ast.unparse(dec.args[0]))
            # register_serializer(T)(func)
            if isinstance(node, ast.Call) and isinstance(node.func, ast.Call) and ast.unparse(node.func.func) == "register_serializer":
                if node.args and isinstance(node.args[0], ast.Name):
                    registered.setdefault(node.args[0].id, []).append(ast.unparse(node.func.args[0]))
        for name, types_ in registered.items():
            fn = funcs[name]
            for tag, kind, line in _first_yields(fn.body):
                rows.append({"serializer": name, "registered_for": types_, "tag": tag, "kind": kind, "file": rel, "line": line})
    return rows


def _chunk_prefix(expr):
    """constant prefix of a yielded expression -> (prefix, kind)"""
    import ast

    e = expr
    if isinstance(e, ast.Call) and isinstance(e.func, ast.Attribute) and e.func.attr == "encode":
        e = e.func.value
    if isinstance(e, ast.Constant) and isinstance(e.value, (bytes, str)):
        v = e.value
        return (v.decode("latin-1") if isinstance(v, bytes) else v), "static"
    if isinstance(e, ast.JoinedStr):
        out, kind = "", "static"
        for part in e.values:
            if isinstance(part, ast.Constant):
                out += part.value
            else:
                s = ast.unparse(part.value)
                if s.endswith("__module__") or s.endswith("__name__"):
                    out += "{cls." + s.rsplit(".", 1)[1].strip("_") + "}"
                    kind = "template"
                elif s.endswith("._task_type()"):
                    out += "{task_type}"
                    kind = "template"
                else:
                    return out, ("template" if kind == "template" else "static")
        return out, kind
    if isinstance(e, ast.BinOp) and isinstance(e.op, ast.Add):
        return _chunk_prefix(e.left)
    return "", "dynamic"


def _first_yields(stmts):
    """[(tag, kind, line)] for every first-yield reachable at the start of a statement list
    (if/try alternatives are all followed; a cache-key tuple is skipped: it is not a bytes chunk)"""
    import ast

    out = []

    def walk(body):
        """returns True when every path through `body` has yielded"""
        for st in body:
            if isinstance(st, ast.Expr) and isinstance(st.value, ast.Yield):
                v = st.value.value
                if isinstance(v, ast.Call) and ast.unparse(v.func) == "CacheKey":
                    continue
                tag, kind = _chunk_prefix(v)
                out.append((tag, kind, st.lineno))
                return True
            if isinstance(st, ast.Expr) and isinstance(st.value, ast.YieldFrom):
                out.append(("", "delegated", st.lineno))
                return True
            if isinstance(st, ast.If):
                a = walk(st.body)
                b = walk(st.orelse) if st.orelse else False
                if a and b:
                    return True
                continue
            if isinstance(st, ast.Try):
                a = walk(st.body)
                hs = [walk(h.body) for h in st.handlers]
                if a and all(hs):
                    return True
                continue
            if isinstance(st, (ast.For, ast.While, ast.With)):
                if walk(st.body) and isinstance(st, ast.With):
                    return True
                continue
        return False

    walk(stmts)
    return out


def tag_conflicts(tags):
    """pairs of distinct tag strings where one is a prefix of (or equal to) the other"""
    bad = []
    for a, b in itertools.combinations(sorted(set(tags)), 2):
        if a.startswith(b) or b.startswith(a):
            bad.append((a, b))
    return bad


# =============================================================================== tasks used by C06 / C07
_TASKS = None


def TASKS():
    """task classes (built lazily: importing pydra.compose is slow and not needed by C08/C09)"""
    global _TASKS
    if _TASKS is None:
        from pydra.compose import python, shell

        ident = python.define(ident_fn)
        two_xor = shell.define(
            "echo",
            inputs={
                n: shell.arg(name=n, type=ty.Optional[str], default=None, argstr=f"-{n}")
                for n in ("a", "b", "c", "d")
            },
            xor=[["a", "b"], ["c", "d"]],
        )
        one_xor = shell.define(
            "echo",
            inputs={n: shell.arg(name=n, type=ty.Optional[str], default=None, argstr=f"-{n}") for n in ("a", "b")},
            xor=["a", "b"],
        )
        _TASKS = {"Ident": ident, "TwoXor": two_xor, "OneXor": one_xor}
    return _TASKS


def ident_fn(x: ty.Any) -> ty.Any:
    return x


def describe_fn(x: ty.Any) -> str:
    """an output that distinguishes type, content, shape and dtype of the input"""
    if np is not None and isinstance(x, (np.ndarray, np.generic)):
        return f"{type(x).__name__}|{x.dtype.str}|{x.shape}|{x.tolist()!r}"
    if isinstance(x, type) or callable(x):
        return f"{type(x).__name__}|{getattr(x, '__module__', '')}.{getattr(x, '__qualname__', repr(x))}|{_probe(x)}"
    return f"{type(x).__name__}|{x!r}"


def _probe(x):
    """what the class / function does (so that 'executing now' is distinguishable)"""
    try:
        if isinstance(x, type):
            inst = x()
            return repr(inst() if callable(inst) else getattr(inst, "a", None))
        return repr(x(5))
    except Exception as e:  # noqa
        return type(e).__name__


# =============================================================================== C09 file histories
OPS = ("Wsame", "Wdiff", "Restore", "RenameOver", "Copy2")


def c09_histories(max_ops):
    """every history: initial write, optional hash, then <= max_ops operations each optionally followed
    by a hash; a final hash is always taken (it is the observation).  Yields tuples of steps; "H" = hash."""
    for n in range(0, max_ops + 1):
        for ops in itertools.product(OPS, repeat=n):
            for hs in itertools.product((False, True), repeat=n):  # hash after creation / after each op but the last
                steps = []
                seq = ["Init"] + list(ops)
                for i, op in enumerate(seq):
                    steps.append(op)
                    if i == len(seq) - 1 or hs[i]:
                        steps.append("H")
                yield tuple(steps)


class FileModel:
    """reference model of one file (target="file") or of a directory holding that file (target="dir") under a
    history: what the property talks about is the CONTENT; the model also tracks the timestamps the operations
    produce so that a stale answer can be given a narrow class.  A logical clock makes mtimes deterministic:
    a content-changing operation that does not preserve timestamps stamps the file with the next clock value,
    exactly as if time had passed.
      Wsame / Wdiff  rewrite the file in place with new content of the same / another size
      Restore        os.utime back to the mtime the file had before its latest content change
      RenameOver     a freshly written file (new content, current clock) is renamed over it
      Copy2          shutil.copy2 of a sibling with other content that carries the mtime the file had initially
                     (two files extracted from one archive); copy2 preserves that timestamp
    In-place operations do not touch the mtime of the parent directory (POSIX); RenameOver does."""

    def __init__(self, t0_ns, tick_ns, target="file"):
        self.t0, self.tick, self.target = t0_ns, tick_ns, target
        self.clock = 0
        self.n = 0
        self.content = None
        self.mtime = None
        self.prev_mtime = None
        self.dir_mtime = None
        self.hashed = []  # (file mtime, dir mtime, content) at every hash so far
        self.last_mtime_op = "Init"
        self.last_content_op = "Init"

    def now(self):
        self.clock += 1
        return self.t0 + self.clock * self.tick

    def new_content(self, same_size):
        self.n += 1
        return (f"c{self.n:03d}" if same_size else "d" * (4 + self.n) + f"{self.n:03d}").encode()

    def apply(self, op):
        """returns the action list to perform on the real file system"""
        if op == "Init":
            self.content, self.mtime = b"c000", self.now()
            self.init_mtime = self.mtime
            self.dir_mtime = self.mtime
            return [("create", self.content, self.mtime, b"sib0")]
        if op in ("Wsame", "Wdiff"):
            self.prev_mtime = self.mtime
            self.content, self.mtime = self.new_content(op == "Wsame"), self.now()
            self.last_mtime_op = self.last_content_op = op
            return [("write", self.content, self.mtime)]
        if op == "Restore":
            if self.prev_mtime is not None:
                self.mtime = self.prev_mtime
                self.last_mtime_op = op
            return [("utime", self.mtime)]
        if op == "RenameOver":
            self.prev_mtime = self.mtime
            self.content, self.mtime = self.new_content(True), self.now()
            self.dir_mtime = self.mtime
            self.last_mtime_op = self.last_content_op = op
            return [("rename_over", self.content, self.mtime)]
        if op == "Copy2":
            self.prev_mtime = self.mtime
            self.content, self.mtime = b"sib0", self.init_mtime
            self.last_mtime_op = self.last_content_op = op
            return [("copy2", self.mtime)]
        if op == "H":
            klass = self.stale_class()
            self.hashed.append((self.mtime, self.dir_mtime, self.content))
            return [("hash", self.content, klass)]
        raise ValueError(op)

    def stale_class(self):
        """class predicate of a stale answer at this point of the history, from the history alone"""
        if self.target == "file":
            # the same path with the same mtime was hashed earlier while it held other content
            if any(m == self.mtime and c != self.content for m, _, c in self.hashed):
                return f"content-changed-same-path-and-mtime-after-{self.last_mtime_op}"
            return None
        # directory: hashed earlier; since then only in-place changes of a member (no entry created/removed/renamed)
        if any(dm == self.dir_mtime and c != self.content for _, dm, c in self.hashed):
            return f"directory-member-changed-in-place-after-{self.last_content_op}"
        return None


C09_NAME = "f.txt"
_EXPECTED = {}


def c09_paths(workdir, target):
    workdir = pathlib.Path(workdir)
    d = workdir / "data"
    return {"dir": d, "file": d / C09_NAME, "sib": workdir / "sibling.txt", "new": workdir / "incoming.tmp", "hc": workdir / "hashcache"}


def _utime(p, mtime_ns):
    os.utime(p, ns=(mtime_ns, mtime_ns))
    if os.lstat(p).st_mtime_ns != mtime_ns:
        raise RuntimeError(f"file system cannot represent mtime {mtime_ns} exactly for {p}")


def c09_hash(paths, target, mode, pc=None):
    """the observation: the REAL hash of the file / directory (or a task checksum over it)"""
    from fileformats.generic import File, Directory
    from pydra.utils.hash import hash_function

    obj = File(paths["file"]) if target == "file" else Directory(paths["dir"])
    if mode == "task":
        os.environ["PYDRA_HASH_CACHE"] = str(paths["hc"])
        return TASKS()["Ident"](x=obj)._checksum
    if mode == "shared-object":
        return hash_function(obj, persistent_cache=pc)
    if mode == "env":
        os.environ["PYDRA_HASH_CACHE"] = str(paths["hc"])
        return hash_function(obj)
    return hash_function(obj, persistent_cache=paths["hc"])  # "path": a new PersistentCache per call


def c09_expected(content, target, mode, scratch):
    """what the property demands: the hash of a FRESH file (directory) with that content, computed by the real
    function with a fresh persistent store"""
    key = (content, target, mode == "task")
    if key not in _EXPECTED:
        w = pathlib.Path(tempfile.mkdtemp(prefix="vf_c09exp_", dir=scratch))
        try:
            ps = c09_paths(w, target)
            ps["dir"].mkdir()
            ps["file"].write_bytes(content)
            _EXPECTED[key] = c09_hash(ps, target, "task" if mode == "task" else "path")
        finally:
            shutil.rmtree(w, ignore_errors=True)
    return _EXPECTED[key]


def c09_execute(workdir, steps, t0, tick, target, mode, start=0, stop=None):
    """perform steps[start:stop] of a history on the real file system under `workdir` (the model is always replayed
    from the beginning so that another process can continue a history).  Returns the hash observations
    [{"step": i, "content": latin1, "class": stale-class-or-None, "got": hash}]"""
    from pydra.utils.hash import PersistentCache

    ps = c09_paths(workdir, target)
    model = FileModel(t0, tick, target)
    stop = len(steps) if stop is None else stop
    pc = None
    obs = []
    for i, op in enumerate(steps):
        actions = model.apply(op)
        if i < start or i >= stop:
            continue
        if pc is None and mode == "shared-object":
            pc = PersistentCache(ps["hc"])
        for act in actions:
            kind = act[0]
            if kind == "create":
                ps["dir"].mkdir()
                ps["file"].write_bytes(act[1])
                _utime(ps["file"], act[2])
                ps["sib"].write_bytes(act[3])
                _utime(ps["sib"], act[2])
                _utime(ps["dir"], act[2])
            elif kind == "write":
                with open(ps["file"], "r+b") as f:  # in place: same inode, parent directory untouched
                    f.seek(0)
                    f.write(act[1])
                    f.truncate()
                _utime(ps["file"], act[2])
            elif kind == "utime":
                _utime(ps["file"], act[1])
            elif kind == "rename_over":
                ps["new"].write_bytes(act[1])
                _utime(ps["new"], act[2])
                os.rename(ps["new"], ps["file"])
                _utime(ps["dir"], act[2])
            elif kind == "copy2":
                shutil.copy2(ps["sib"], ps["file"])
                if os.lstat(ps["file"]).st_mtime_ns != act[1]:
                    raise RuntimeError("shutil.copy2 did not preserve the mtime")
            elif kind == "hash":
                if os.lstat(ps["dir"]).st_mtime_ns != model.dir_mtime:
                    raise RuntimeError("model of the parent directory's mtime disagrees with the file system")
                if ps["file"].read_bytes() != act[1]:
                    raise RuntimeError("model of the file content disagrees with the file system")
                obs.append({"step": i, "content": act[1].decode("latin-1"), "class": act[2], "got": c09_hash(ps, target, mode, pc)})
    return obs


def c09_case(job):
    """one whole history in this process.  job: {root, id, steps, age, target, mode}"""
    import time

    w = pathlib.Path(job["root"]) / f"p{os.getpid()}" / f"h{job['id']}"  # one parent per process: no directory-lock contention
    w.mkdir(parents=True)
    old = os.environ.get("PYDRA_HASH_CACHE")
    try:
        t0, tick = c09_clock(job["age"])
        obs = c09_execute(w, job["steps"], t0, tick, job["target"], job["mode"])
        for o in obs:
            o["expected"] = c09_expected(o["content"].encode("latin-1"), job["target"], job["mode"], job["root"])
        return {"id": job["id"], "obs": obs, "t0": t0, "tick": tick}
    finally:
        if old is None:
            os.environ.pop("PYDRA_HASH_CACHE", None)
        else:
            os.environ["PYDRA_HASH_CACHE"] = old
        shutil.rmtree(w, ignore_errors=True)


def c09_clock(age):
    import time

    if age == "old":  # a day ago, one second per operation
        return (int(time.time()) - 86400) * 10**9, 10**9
    return time.time_ns() - 10**6, 1000  # "recent": all mtimes within a millisecond before now


def c09_worker():
    """fresh interpreter: stdin {"jobs": [{workdir, steps, t0, tick, target, start, stop}]} -> stdout [[obs..]..]"""
    import json
    import sys
    import pydra.utils.hash as H

    req = json.load(sys.stdin)
    out = []
    for j in req["jobs"]:
        out.append(c09_execute(j["workdir"], j["steps"], j["t0"], j["tick"], j["target"], "path", j["start"], j["stop"]))
    json.dump({"pydra": H.__file__, "pid": os.getpid(), "obs": out}, sys.stdout)


# =============================================================================== C07 grammar + session worker
def c07_values(thorough=False):
    """the property's grammar: nested dicts, lists, tuples, sets, frozensets of frozensets, numbers, strings,
    bytes, paths, numpy arrays, files (files as ["file", name, content] relative to a base directory)"""
    S5 = ["a", "b", "c", "d", "e"] if not thorough else ["a", "b", "c", "d", "e", "f", "g"]
    vals = []
    add = vals.append
    # numbers, strings, bytes, paths
    for v in (0, 1, -1, 2**70, 1.5, -0.0, 1 + 2j, True, None, "", "a", "ab", "héllo", b"", b"ab", pathlib.PurePosixPath("/a/b"), pathlib.PosixPath("rel/x")):
        add(d_of(v))
    # flat unordered collections of every element kind, several sizes
    pools = {
        "str": S5,
        "int": [3, 1, 2, 100, -7, 2**65, 64],
        "float": [0.5, 1.5, -2.0, 1e10, 3.25],
        "bytes": [b"a", b"b", b"c", b"dd", b"e"],
        "tuple": [("a", 1), ("b", 2), ("a", 2), ("c", 0), ("b", 1)],
        "path": [pathlib.PurePosixPath(p) for p in ("/a", "/b", "/a/b", "c", "/d")],
    }
    sizes = (2, 3, 5) if not thorough else (2, 3, 4, 5, 7)
    for kind, pool in pools.items():
        for n in sizes:
            items = pool[:n]
            if len(items) < n:
                continue
            for cont in ("set", "frozenset"):
                add([cont, [d_of(i) for i in items]])
            add(["dict", [[d_of(i), d_of(j)] for j, i in enumerate(items)]])
    if thorough:  # every 2- and 3-subset of the string pool as a set
        for n in (2, 3):
            for items in itertools.combinations(S5, n):
                add(["set", [d_of(i) for i in items]])
    # frozensets of frozensets: chains (totally ordered by <), and anti-chains (not ordered)
    fs = lambda *xs: ["frozenset", [d_of(x) for x in xs]]  # noqa: E731
    for elems in (["a", "b", "c"], [1, 2, 3]):
        a, b, c = elems
        add(["frozenset", [fs(a), fs(a, b)]])  # chain
        add(["frozenset", [fs(), fs(a), fs(a, b), fs(a, b, c)]])  # chain
        add(["frozenset", [fs(a), fs(b)]])  # anti-chain
        add(["frozenset", [fs(a, b), fs(b, c)]])  # anti-chain
        add(["frozenset", [fs(a), fs(b), fs(c)]])
        add(["frozenset", [fs(a), fs(b), fs(a, b)]])  # partial
        add(["set", [fs(a), fs(b)]])
        add(["set", [fs(a, b), fs(c)]])
        add(["dict", [[fs(a), d_of(1)], [fs(b), d_of(2)]]])  # mapping keys that are not totally ordered
        add(["list", [["frozenset", [fs(a), fs(b)]], d_of(1)]])
    add(["set", [d_of(float("nan")), d_of(1.0), d_of(2.0)]])
    # nesting
    s3 = ["set", [d_of(i) for i in S5[:3]]]
    f3 = ["frozenset", [d_of(i) for i in S5[:3]]]
    dd = ["dict", [[d_of(k), d_of(i)] for i, k in enumerate(S5[:4])]]
    add(["list", [s3, dd, d_of(1)]])
    add(["tuple", [f3, f3, ["list", [s3]]]])
    add(["dict", [[d_of("x"), s3], [d_of("y"), dd], [d_of("z"), ["list", [d_of(1), d_of("a")]]]]])
    add(["dict", [[d_of("outer"), ["dict", [[d_of("inner"), dd], [d_of("other"), s3]]]], [d_of("n"), d_of(1)]]])
    add(["set", [["tuple", [d_of("a"), f3]], ["tuple", [d_of("b"), f3]]]])
    add(["dict", [[["tuple", [d_of("k"), d_of(i)]], d_of(i)] for i in (2, 1, 3)]])
    add(["set", [d_of(1), d_of("a")]])  # unorderable: allowed refusal, but it must be the same refusal in every session
    # objects holding unordered collections
    add(["obj", "AttrsA", [["x", s3], ["y", dd]]])
    add(["obj", "PlainA", [["x", s3], ["y", dd], ["z", d_of(1)]]])
    add(["obj", "SlotsA", [["x", f3], ["y", d_of("a")]]])
    add(["type", "AttrsA"])
    add(["func", "f_add1"])
    # numpy
    if np is not None:
        add(["nd", "int64", [3], [1, 2, 3], "C"])
        add(["nd", "float32", [2, 2], [0.0, 1.0, 1.0, 0.0], "C"])
        add(["nd", "float32", [2, 2], [0.0, 1.0, 1.0, 0.0], "F"])
        add(["nd", "object", [2], [s3, d_of("a")], "C"])
        add(["npscalar", "float64", 1.0])
    # files
    add(["file", "f1.txt", "hello"])
    add(["list", [["file", "f1.txt", "hello"], ["file", "f2.txt", "world"]]])
    add(["dict", [[d_of("in"), ["file", "f2.txt", "world"]], [d_of("n"), d_of(1)]]])
    add(["set", [["file", "f1.txt", "hello"]]])
    # tasks as values (a task given to another task): their xor groups are a frozenset of frozensets
    add(["task", "OneXor", [["a", d_of("1")]]])
    add(["task", "TwoXor", [["a", d_of("1")], ["c", d_of("2")]]])
    add(["task", "Ident", [["x", s3]]])
    return vals


def file_descs(desc):
    if desc[0] == "file":
        yield desc
    elif desc[0] in ("list", "tuple", "set", "frozenset"):
        for d in desc[1]:
            yield from file_descs(d)
    elif desc[0] == "dict":
        for a, b in desc[1]:
            yield from file_descs(a)
            yield from file_descs(b)
    elif desc[0] in ("obj", "task"):
        for _, d in desc[2]:
            yield from file_descs(d)


def _outcome(f):
    try:
        return f()
    except Exception as e:  # noqa: a refusal is an outcome that must itself be session independent
        return f"raise:{type(e).__name__}"


def c07_worker():
    """runs in a fresh interpreter (its PYTHONHASHSEED is the configuration under test).
    stdin: {"values": [desc..], "base": dir, "roots": [dir, dir], "workers": [..], "dump": path|None, "load": path|None}
    stdout: one JSON object with, per (value index, insertion order), every observable identity."""
    import json
    import sys
    import cloudpickle as cp
    import pydra.utils.hash as H
    from pydra.utils.hash import hash_function
    from pydra.engine.submitter import Submitter
    from pydra.engine.job import Job

    job = json.load(sys.stdin)
    ident = TASKS()["Ident"]
    out = {"pydra": H.__file__, "hashseed": os.environ.get("PYTHONHASHSEED"), "records": [], "loaded": None}
    subs = [(r, w, Submitter(cache_root=r, worker=w)) for r in job["roots"] for w in job["workers"]]
    dumps = []
    try:
        for i, desc in enumerate(job["values"]):
            for order in range(n_orders(desc)):
                v = build(desc, order, job["base"])
                rec = {"i": i, "order": order}
                rec["hash"] = _outcome(lambda: hash_function(v))
                rec["hash_pickled"] = _outcome(lambda: hash_function(cp.loads(cp.dumps(v))))
                task = ident(x=v)
                rec["checksum"] = _outcome(lambda: task._checksum)
                rec["checksum_pickled"] = _outcome(lambda: cp.loads(cp.dumps(task))._checksum)
                if desc[0] == "task":
                    rec["self_checksum"] = _outcome(lambda: v._checksum)
                    rec["self_checksum_pickled"] = _outcome(lambda: cp.loads(cp.dumps(v))._checksum)
                if order == 0:
                    rec["job_dirs"] = [_outcome(lambda: Job(task, submitter=s, name="main").cache_dir.name) for _, _, s in subs]
                    if job.get("dump"):
                        dumps.append(_outcome(lambda: cp.dumps(task).hex()))
                out["records"].append(rec)
        if job.get("dump"):
            with open(job["dump"], "w") as f:
                json.dump(dumps, f)
        if job.get("load"):
            with open(job["load"]) as f:
                blobs = json.load(f)
            out["loaded"] = [b if b.startswith("raise:") else _outcome(lambda: cp.loads(bytes.fromhex(b))._checksum) for b in blobs]
    finally:
        for _, _, s in subs:
            try:
                s.close()
            except Exception:  # noqa
                pass
    json.dump(out, sys.stdout)


# =============================================================================== C06: task pairs differing in ONE aspect
C06_GLOBAL = 1
C06_HELPER = f_add1


def use_global(x: int) -> int:
    return x + C06_GLOBAL


def call_helper(x: int) -> int:
    return C06_HELPER(x)


def typed_add1(x: int) -> int:
    return x + 1


def typed_add2(x: int) -> int:
    return x + 2


def typed_def1(x: int, y: int = 1) -> int:
    return x + y


def typed_def2(x: int, y: int = 2) -> int:
    return x + y


def fmt_one(x):
    return f"--one={x}"


def fmt_two(x):
    return f"--two={x}"


def _set_global(**kw):
    globals().update(kw)


_C06 = None


def c06_program_pairs():
    """[{aspect, label, make: (thunk1, thunk2)}]: two deterministic tasks that differ in exactly one semantically
    relevant aspect named by the property: function body / default / closure cell / referenced global; shell
    executable / argstr / position / sep / formatter.  A thunk first establishes the environment the task runs in
    (the value of a referenced global) and then builds the task - 'executing now' means in that environment."""
    global _C06
    if _C06 is not None:
        return _C06
    from pydra.compose import python, shell, workflow

    P = python.define
    pairs = []

    def add(aspect, label, m1, m2):
        pairs.append({"aspect": aspect, "label": label, "make": (m1, m2)})

    T_add1, T_add2 = P(typed_add1), P(typed_add2)
    add("python-function-body", "def x+1 / def x+2", lambda: T_add1(x=1), lambda: T_add2(x=1))
    T_d1, T_d2 = P(typed_def1), P(typed_def2)
    add("python-function-default", "def f(x, y=1) / def f(x, y=2)", lambda: T_d1(x=1), lambda: T_d2(x=1))
    T_c1, T_c2 = P(make_adder(1)), P(make_adder(2))
    add("python-closure-cell", "make_adder(1) / make_adder(2)", lambda: T_c1(x=1), lambda: T_c2(x=1))
    T_c3, T_c4 = P(make_adder("a")), P(make_adder("b"))
    add("python-closure-cell", "make_adder('a') / make_adder('b')", lambda: T_c3(x="x"), lambda: T_c4(x="x"))
    T_g = P(use_global)

    def g(v):
        def thunk():
            _set_global(C06_GLOBAL=v)
            return T_g(x=1)

        return thunk

    add("python-referenced-global", "x + G with G=1 / G=2", g(1), g(2))
    T_h = P(call_helper)

    def h(f):
        def thunk():
            _set_global(C06_HELPER=f)
            return T_h(x=1)

        return thunk

    add("python-referenced-global", "HELPER(x) with HELPER=f_add1 / f_add2", h(f_add1), h(f_add2))
    T_l1, T_l2 = P(LAM_ADD1), P(LAM_ADD2)
    add("python-lambda-body", "lambda x: x + 1 / lambda x: x + 2", lambda: T_l1(x=1), lambda: T_l2(x=1))

    @workflow.define
    def WfOne(x: int) -> int:
        n = workflow.add(T_add1(x=x), name="n")
        return n.out

    @workflow.define
    def WfTwo(x: int) -> int:
        n = workflow.add(T_add2(x=x), name="n")
        return n.out

    add("workflow-constructor-body", "workflow adding x+1 node / x+2 node", lambda: WfOne(x=1), lambda: WfTwo(x=1))

    def sh(exe="echo", **flds):
        return shell.define(exe, inputs={n: shell.arg(name=n, **kw) for n, kw in flds.items()})

    def shpair(aspect, label, A, B, **kw):
        add(aspect, label, lambda: A(**kw), lambda: B(**kw))

    shpair("shell-executable", "echo v / printf v", sh("echo", x=dict(type=str, argstr="")), sh("printf", x=dict(type=str, argstr="")), x="v")
    shpair("shell-argstr", "-a v / -b v", sh(x=dict(type=str, argstr="-a")), sh(x=dict(type=str, argstr="-b")), x="v")
    shpair("shell-argstr", "--x={x} / --y={x}", sh(x=dict(type=str, argstr="--x={x}")), sh(x=dict(type=str, argstr="--y={x}")), x="v")
    shpair("shell-argstr", "flag -v / flag -q", sh(x=dict(type=bool, argstr="-v")), sh(x=dict(type=bool, argstr="-q")), x=True)
    shpair(
        "shell-position",
        "x@1 y@2 / x@2 y@1",
        sh(x=dict(type=str, argstr="", position=1), y=dict(type=str, argstr="", position=2)),
        sh(x=dict(type=str, argstr="", position=2), y=dict(type=str, argstr="", position=1)),
        x="X",
        y="Y",
    )
    shpair("shell-sep", "sep ',' / sep '+'", sh(x=dict(type=list[str], argstr="-x", sep=",")), sh(x=dict(type=list[str], argstr="-x", sep="+")), x=["1", "2"])
    shpair("shell-formatter", "formatter --one= / --two=", sh(x=dict(type=str, formatter=fmt_one)), sh(x=dict(type=str, formatter=fmt_two)), x="v")
    T_val = sh(x=dict(type=str, argstr="-a"))
    add("shell-input-value", "x='v' / x='w'", lambda: T_val(x="v"), lambda: T_val(x="w"))
    _C06 = pairs
    return pairs


def c06_value_pairs():
    """[(aspect, d1, d2)] input values differing in content / type / shape / dtype (descriptors)"""
    nd = lambda dt, shape, vals: ["nd", dt, shape, vals, "C"]  # noqa: E731
    P = []
    for a, b in ((1, 2), ("a", "b"), ([1, 2], [2, 1]), ({"a": 1}, {"a": 2}), ({"a": 1}, {"b": 1}), (b"a", b"b"), (1.5, 2.5), (pathlib.PurePosixPath("a"), pathlib.PurePosixPath("b")), ({1, 2}, {1, 3})):
        P.append(("input-content", d_of(a), d_of(b)))
    for a, b in ((1, True), (1, 1.0), (0, False), ([1], (1,)), ("a", b"a"), ({1}, frozenset({1})), (None, "None"), ([], {}), (1, "1")):
        P.append(("input-type", d_of(a), d_of(b)))
    P.append(("input-content", nd("int32", [2], [0, 1]), nd("int32", [2], [1, 0])))
    P.append(("input-type", nd("int64", [2], [0, 1]), d_of([0, 1])))
    P.append(("input-type", ["npscalar", "int32", 1], d_of(1)))
    P.append(("input-type", ["npscalar", "int32", 1], nd("int32", [], [1])))
    for s1, s2 in (([4], [2, 2]), ([2], [1, 2]), ([2], [2, 1]), ([2, 2], [1, 4]), ([1], []), ([2, 1, 2], [2, 2])):
        n = 1
        for i in s1:
            n *= i
        P.append(("input-shape", nd("int64", s1, list(range(n))), nd("int64", s2, list(range(n)))))
        P.append(("input-shape", nd("float32", s1, [0.0] * n), nd("float32", s2, [0.0] * n)))
    for dt1, dt2 in (("int32", "float32"), ("int64", "float64"), ("int32", "uint32"), ("int64", "uint64")):
        P.append(("input-dtype", nd(dt1, [2], [0, 0]), nd(dt2, [2], [0, 0] if dt2.startswith(("int", "uint")) else [0.0, 0.0])))
        P.append(("input-dtype", nd(dt1, [2, 2], [0, 0, 0, 0]), nd(dt2, [2, 2], [0, 0, 0, 0] if dt2.startswith(("int", "uint")) else [0.0] * 4)))
    P.append(("input-dtype", nd("int32", [2], [1, 1]), nd("float32", [2], [DENORMAL32, DENORMAL32])))
    P.append(("input-dtype", nd("int32", [2], [0, 1]), nd("int64", [2], [0, 1])))
    # classes and functions given as input values
    P.append(("input-content", ["type", "list[int]"], ["type", "list[str]"]))
    P.append(("input-content", ["type", "ty.List[int]"], ["type", "ty.List[str]"]))
    P.append(("input-content", ["type", "MarkerCat"], ["type", "MarkerDog"]))
    P.append(("input-content", ["type", "CallOne"], ["type", "CallTwo"]))
    P.append(("input-content", ["type", "AttrOne"], ["type", "AttrTwo"]))
    P.append(("input-content", ["func", "f_add1"], ["func", "f_add2"]))
    P.append(("input-content", ["func", "LAM_ADD1"], ["func", "LAM_ADD2"]))
    P.append(("input-content", ["func", "CLOSURE_1"], ["func", "CLOSURE_2"]))
    P.append(("input-content", ["func", "len"], ["func", "abs"]))
    return P


def c06_value_class(aspect, d1, d2):
    """narrow class of a pair of input VALUES that share a cache entry"""
    if d1[0] == "func" and d2[0] == "func" and {d1[1], d2[1]} == {"CLOSURE_1", "CLOSURE_2"}:
        return "input-function-closure-cell-differs"
    c = collision_class(d1, d2)
    return f"input-{c}" if c else None


C06_PROGRAM_CLASSES = {
    # aspect -> class of a pair of tasks that share a cache entry although they differ in that aspect
    "python-closure-cell": "python-closure-cell-differs",
    "python-referenced-global": "python-referenced-global-differs",
    "python-lambda-body": "python-lambda-body-differs",
    "shell-argstr": "shell-field-argstr-differs",
    "shell-position": "shell-field-position-differs",
    "shell-sep": "shell-field-sep-differs",
    "shell-formatter": "shell-field-formatter-differs",
}
