"""Spec functions for C38 (written from the property text, not from the code)."""


def comp_prefix(p, path):
    # mount point p (absolute, no trailing slash unless it is the root) is a
    # path-component prefix of the absolute path `path`
    return p == "/" or path == p or path.startswith(p + "/")
