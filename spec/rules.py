"""Reference semantics of requirement / mutual-exclusion rules (property C31).

Written from the property text:

  "A task can be executed only if its declared rules hold: every set field with requirements
   has at least one requirement set whose fields are all set (to an allowed value where given),
   and at most one field of each exclusive group is set (exactly one unless the group allows
   none), with mandatory fields set."

and from the docstrings that document the feature (Arg.requires: "names of the inputs that are
required together with the field"; define(xor=...): "names of args that are mutually exclusive
... if this list includes None, then none of the fields need to be set").

What the text does NOT fix is whether a falsy value that is not None/False ("" for a str
field) counts as *set*, and whether a mandatory field that was explicitly given None / False /
"" counts as *set* for the mandatory clause.  The oracle is therefore three-valued:

   None / False / not provided  -> not set
   truthy                       -> set
   falsy, not None, not False   -> open (both readings are evaluated)

`rules_ok` evaluates the clauses in three-valued (Kleene) logic — every use of an open point is
an independent unknown — and returns True / False when the text decides, else None ("don't
care": the check accepts either verdict of the implementation).

Data model (plain Python, no pydra objects)
  fields : list of dict(name=str, mandatory=bool, default=<value or UNSET>,
                        requires=[ [ (ref_name, allowed_values_or_None), ... ], ... ])
           `requires` is a disjunction (outer list) of conjunctions (inner lists);
           an empty outer list means "no requirements".
  xor    : list of groups, each a list of field names, possibly containing None
  values : dict name -> provided value; a missing key or UNSET means "not provided"
"""

from __future__ import annotations



class _Unset:
    def __repr__(self):
        return "UNSET"

    def __bool__(self):
        return False


UNSET = _Unset()


def effective(field, values):
    """the value the field holds: the provided one, else the default, else UNSET"""
    v = values.get(field["name"], UNSET)
    if v is UNSET:
        return field.get("default", UNSET)
    return v


def setness(v):
    """'set' | 'unset' | 'open'"""
    if v is UNSET or v is None or v is False:
        return "unset"
    if v:
        return "set"
    return "open"


def mandatory_state(field, values):
    """'ok' | 'missing' | 'open' for the clause "with mandatory fields set" """
    if not field.get("mandatory"):
        return "ok"
    v = values.get(field["name"], UNSET)
    if v is UNSET:
        return "missing"
    if v:
        return "ok"
    return "open"  # explicitly given None / False / "": the text does not say


# three-valued (Kleene) connectives over True / False / None(=open)


def k_not(x):
    return None if x is None else (not x)


def k_and(xs):
    xs = list(xs)
    if any(x is False for x in xs):
        return False
    if any(x is None for x in xs):
        return None
    return True


def k_or(xs):
    xs = list(xs)
    if any(x is True for x in xs):
        return True
    if any(x is None for x in xs):
        return None
    return False


_TRI = {"set": True, "unset": False, "open": None}


def rules_ok(fields, xor, values, required_as_set=()):
    """True / False / None (= the property text does not decide).

    `required_as_set` (used only by class predicates of findings, never for a verdict): names
    that count as set when they are the TARGET of a requirement, whatever they hold.

    Every USE of an open set-ness is an independent unknown (Kleene evaluation): the text
    neither says whether "" is set, nor that the answer must be the same for the requirement
    clause and for the exclusive-group clause."""
    vals = {f["name"]: effective(f, values) for f in fields}
    is_set = {n: _TRI[setness(v)] for n, v in vals.items()}
    clauses = []
    for f in fields:
        ms = mandatory_state(f, values)
        clauses.append({"ok": True, "missing": False, "open": None}[ms])
        reqs = f.get("requires") or []
        if reqs:
            sat = k_or(k_and(k_and([True if ref in required_as_set else is_set[ref], True if allowed is None else (vals[ref] in allowed)]) for ref, allowed in conj) for conj in reqs)
            clauses.append(k_or([k_not(is_set[f["name"]]), sat]))
    for group in xor:
        members = [m for m in group if m is not None]
        n_min = sum(1 for m in members if is_set[m] is True)
        n_max = sum(1 for m in members if is_set[m] is not False)
        clauses.append(True if n_max <= 1 else (False if n_min > 1 else None))  # at most one
        if None not in group:
            clauses.append(True if n_min >= 1 else (False if n_max == 0 else None))  # at least one
    return k_and(clauses)


def explain(fields, xor, values):
    """which clauses fail under the strict reading (open points = not set / not ok); for messages"""
    vals = {f["name"]: effective(f, values) for f in fields}
    is_set = {n: setness(v) == "set" for n, v in vals.items()}
    out = []
    for f in fields:
        if mandatory_state(f, values) == "missing":
            out.append(f"mandatory {f['name']} not provided")
        reqs = f.get("requires") or []
        if reqs and is_set[f["name"]]:
            if not any(all(is_set[r] and (a is None or vals[r] in a) for r, a in conj) for conj in reqs):
                out.append(f"{f['name']} is set but none of its requirement sets {reqs} holds")
    for g in xor:
        n = [m for m in g if m is not None and is_set[m]]
        if len(n) > 1:
            out.append(f"exclusive group {g}: {n} set together")
        if not n and None not in g:
            out.append(f"exclusive group {g}: none set")
    return out
