"""Spec functions (oracles) for the shell command-line properties C22..C26.

Written from the PROPERTY TEXT (/verif/properties.jsonl) and the user documentation
(docs/source/tutorial/5-shell.ipynb, the `shell.arg` / `shell.outarg` / `shell.define`
docstrings) -- NOT from the implementation.  Where the text leaves a behaviour open the
oracle returns EVERY admissible reading (a set of alternatives); a check passes when the
observed result is one of them.

Nothing in this file imports pydra.
"""

from __future__ import annotations

import itertools
import os
import shlex

# --------------------------------------------------------------------------------------
# C22 / C23 / C24 : documented argv semantics
# --------------------------------------------------------------------------------------
# A field spec is a plain dict:
#   name      str
#   kind      "bool" | "str" | "int" | "float" | "file" | "list" | "multi"
#   optional  bool      (type is `T | None`, default None: may be left unset)
#   argstr    str|None  ("" = bare value, "-x" = flag, contains "{name}" = templated,
#                        trailing "..." = repeat per element, None = not on the command line)
#   position  int|None
#   sep       str
# A value assignment maps name -> value; a missing name or None means "unset".

SCALAR_KINDS = ("str", "int", "float", "file")
LIST_KINDS = ("list", "multi")


def render(v):
    """how one supplied element is written on the command line: the element itself
    (strings / paths verbatim, numbers in their ordinary decimal rendering)"""
    if isinstance(v, str):
        return v
    if isinstance(v, os.PathLike):
        return os.fspath(v)
    return str(v)


def _tmpl_tokens(argstr, name, text):
    """a templated argstr is a piece of command line: its white-space separated words are
    the arguments, `{name}` inside a word is replaced by the value VERBATIM (C23: 'verbatim
    inside the argument built by its argstr')"""
    return [tok.replace("{" + name + "}", text) for tok in argstr.split()]


def _dedup(alts):
    out = []
    for a in alts:
        if a not in out:
            out.append(a)
    return out


def contribution(f, value):
    """all admissible argument lists contributed by field f holding `value`
    (list of alternatives; [[]] = contributes nothing)"""
    name, kind, argstr, sep = f["name"], f["kind"], f["argstr"], f.get("sep", " ")
    if value is None or argstr is None:
        return [[]]  # "Unset/None fields ... contribute nothing"; argstr None: not part of the command
    if kind == "bool":
        # "False flags ... contribute nothing, True flags contribute their flag"
        return [[argstr]] if value is True else [[]]
    templated = "{" in argstr
    if kind in SCALAR_KINDS:
        s = render(value)
        if templated:
            return [_tmpl_tokens(argstr, name, s)]
        return [([argstr] if argstr else []) + [s]]
    assert kind in LIST_KINDS, kind
    if kind == "multi" and not isinstance(value, (list, tuple)):
        value = [value]  # a MultiInputObj accepts a single object for a one-element list
    elems = [render(e) for e in value]
    rep = argstr.endswith("...")
    base = argstr[:-3] if rep else argstr
    if not elems:
        if kind == "multi":
            return [[]]  # "empty multi-inputs contribute nothing"
        # an empty plain list is not mentioned by the property: nothing, or the bare
        # flag/template words with an empty expansion, are both accepted
        words = [w for w in _tmpl_tokens(base, name, "") if w] if templated else ([base] if base else [])
        return _dedup([[], words])
    alts = []

    def repeated():
        # "repeated with '...'": the flag / template is written once per element
        groups = []
        for e in elems:
            groups.append(_tmpl_tokens(base, name, e) if templated else ([base] if base else []) + [e])
        out = [sum(groups, [])]
        if sep.strip():
            # the separator is not mentioned for the repeated form; the test-suite pins it being
            # appended to every element group but the last (`-v aaa, -v bbb, -v ccc`): accept both
            g2 = [list(g) for g in groups]
            for g in g2[:-1]:
                g[-1] = g[-1] + sep
            out.append(sum(g2, []))
        return out

    def joined():
        # "otherwise joined with the field separator"
        if sep.strip():
            j = sep.join(elems)
            return [_tmpl_tokens(base, name, j) if templated else ([base] if base else []) + [j]]
        # a white-space separator separates ARGUMENTS (docs: `--multi-opt 1 2`)
        if not templated:
            return [([base] if base else []) + elems]
        out = []
        # (i) the elements stay separate arguments, template text around `{name}` sticks to the
        #     first / last element; (ii) the joined text is one argument
        toks_sep, toks_one = [], []
        for tok in base.split():
            ph = "{" + name + "}"
            if ph in tok:
                pre, _, post = tok.partition(ph)
                es = list(elems)
                es[0] = pre + es[0]
                es[-1] = es[-1] + post
                toks_sep += es
                toks_one.append(pre + sep.join(elems) + post)
            else:
                toks_sep.append(tok)
                toks_one.append(tok)
        return [toks_sep, toks_one]

    if rep:
        alts += repeated()
    else:
        alts += joined()
        if kind == "multi":
            # docs (tutorial "Flags and options"): a repeatable option prints "the flag itself
            # multiple times"; the property says "joined" when there is no '...': both accepted
            alts += repeated()
    return _dedup(alts)


def field_order(fields):
    """documented order: non-negative positions ascending, then unpositioned fields in
    definition order, then negative positions ascending"""
    pos = sorted((f for f in fields if f["position"] is not None and f["position"] >= 0), key=lambda f: f["position"])
    none = [f for f in fields if f["position"] is None]
    neg = sorted((f for f in fields if f["position"] is not None and f["position"] < 0), key=lambda f: f["position"])
    return pos + none + neg


def gapfill_order(fields):
    """NOT the documented order -- the deviating order named by the known finding
    `unpositioned-fills-gap-before-positive` (used only to classify a failure narrowly):
    unpositioned fields take, in definition order, the lowest free slots 1..n of a command
    with n fields (a negative position -k occupying slot n+1-k), and only then are the
    fields sorted (non-negative ascending, negative ascending)."""
    n = len(fields)
    taken = {0}
    for f in fields:
        p = f["position"]
        if p is not None:
            taken.add(p if p >= 0 else n + 1 + p)
    free = [i for i in range(1, n + 1) if i not in taken]
    eff = []
    for f in fields:
        p = f["position"]
        if p is None:
            p = free.pop(0)
        eff.append((p, f))
    pos = sorted((e for e in eff if e[0] >= 0), key=lambda e: e[0])
    neg = sorted((e for e in eff if e[0] < 0), key=lambda e: e[0])
    return [f for _, f in pos + neg]


def exe_tokens(executable):
    return [executable] if isinstance(executable, str) else list(executable)


def argv_ref(executable, fields, values, append_args=(), order=field_order, limit=4096):
    """the set (list of lists) of admissible argument vectors"""
    per_field = [contribution(f, values.get(f["name"])) for f in order(fields)]
    n = 1
    for a in per_field:
        n *= len(a)
    assert n <= limit, "too many alternatives"
    out = []
    for combo in itertools.product(*per_field):
        argv = exe_tokens(executable) + sum((list(c) for c in combo), []) + [render(a) for a in append_args]
        if argv not in out:
            out.append(argv)
    return out


def may_reject_definition(fields):
    """A definition may be refused (before any task exists) when two explicit positions name
    the same slot.  With n fields the command has slots 0..n (0 = executable); following the
    Python indexing convention quoted for positions, -k names slot n+1-k.  The property only
    speaks about tasks that exist, so such a refusal is an allowed outcome."""
    n = len(fields)
    slots = {}
    for f in fields:
        p = f["position"]
        if p is None:
            continue
        s = p if p >= 0 else n + 1 + p
        slots.setdefault(s, []).append(f["name"])
    return any(len(v) > 1 for v in slots.values()) or 0 in slots


def supplied_elements(fields, values, append_args=()):
    """every string/path element the caller supplied (C23), with the field it belongs to"""
    out = []
    for f in fields:
        v = values.get(f["name"])
        if v is None or f["argstr"] is None:
            continue
        if f["kind"] in ("str", "file"):
            out.append((f["name"], render(v)))
        elif f["kind"] in LIST_KINDS:
            vs = v if isinstance(v, (list, tuple)) else [v]
            out += [(f["name"], render(e)) for e in vs if isinstance(e, (str, os.PathLike))]
    out += [("append_args", render(a)) for a in append_args]
    return out


# characters that are special to a POSIX-shell *tokeniser* (word splitting + quoting)
RETOKENISE_CHARS = set(" \t\n'\"\\")


def retokenised_reading(executable, fields, values, append_args=()):
    """NOT the documented semantics -- the deviating behaviour named by the known finding
    `value-contains-whitespace-quote-or-backslash-retokenised` (used only to classify a failure
    narrowly): the argument text built for a field is tokenised a second time with POSIX shell
    rules (so white space splits, quotes and backslashes are consumed, an unbalanced quote is an
    error) and a token still enclosed in one pair of matching quotes loses them.  Returns the
    list of admissible results under that reading; the string "ValueError" stands for the
    'No closing quotation' / 'No escaped character' error."""
    import re

    def retok(tokens_alts):
        outs = []
        for toks in tokens_alts:
            try:
                parts = shlex.split(" ".join(toks))
            except ValueError:
                outs.append("ValueError")
                continue
            res = []
            for p in parts:
                m = re.match("(['\"])(.*)\\1$", p)
                res.append(m.group(2) if m else p)
            outs.append(res)
        return outs

    per_field = []
    for f in field_order(fields):
        v = values.get(f["name"])
        alts = contribution(f, v)
        if f["kind"] == "bool":
            per_field.append(alts)
        else:
            per_field.append(retok(alts))
    out = []
    for combo in itertools.product(*per_field):
        if any(c == "ValueError" for c in combo):
            if "ValueError" not in out:
                out.append("ValueError")
            continue
        argv = exe_tokens(executable) + sum((list(c) for c in combo), []) + [render(a) for a in append_args]
        if argv not in out:
            out.append(argv)
    return out


def posix_split(cmdline):
    """C24: 'splitting it with POSIX shell rules' (word splitting and quote removal; no
    expansion is performed because nothing is executed by a shell)"""
    return shlex.split(cmdline)


def needs_more_than_space_quoting(arg):
    """class predicate for C24: an argument that a shell rendering has to quote or escape for a
    reason other than containing a plain space"""
    return arg == "" or any(c in arg for c in "\t\n'\"\\")
