"""Spec functions (oracles) for the shell command-line properties C22..C26.

Written from the PROPERTY TEXT (/verif/properties.jsonl) and the user documentation
(docs/source/tutorial/5-shell.ipynb, the `shell.arg` / `shell.outarg` / `shell.define`
docstrings) -- NOT from the implementation.  Where the text leaves a behaviour open the
oracle returns EVERY admissible reading (a set of alternatives); a check passes when the
observed result is one of them.

Nothing in this file imports pydra.
"""

from __future__ import annotations

import itertools
import os
import shlex

# --------------------------------------------------------------------------------------
# C22 / C23 / C24 : documented argv semantics
# --------------------------------------------------------------------------------------
# A field spec is a plain dict:
#   name      str
#   kind      "bool" | "str" | "int" | "float" | "file" | "list" | "multi"
#   optional  bool      (type is `T | None`, default None: may be left unset)
#   argstr    str|None  ("" = bare value, "-x" = flag, contains "{name}" = templated,
#                        trailing "..." = repeat per element, None = not on the command line)
#   position  int|None
#   sep       str
# A value assignment maps name -> value; a missing name or None means "unset".

SCALAR_KINDS = ("str", "int", "float", "file")
LIST_KINDS = ("list", "multi")


def render(v):
    """how one supplied element is written on the command line: the element itself
    (strings / paths verbatim, numbers in their ordinary decimal rendering)"""
    if isinstance(v, str):
        return v
    if isinstance(v, os.PathLike):
        return os.fspath(v)
    return str(v)


def _tmpl_tokens(argstr, name, text):
    """a templated argstr is a piece of command line: its white-space separated words are
    the arguments, `{name}` inside a word is replaced by the value VERBATIM (C23: 'verbatim
    inside the argument built by its argstr')"""
    return [tok.replace("{" + name + "}", text) for tok in argstr.split()]


def _dedup(alts):
    out = []
    for a in alts:
        if a not in out:
            out.append(a)
    return out


def contribution(f, value):
    """all admissible argument lists contributed by field f holding `value`
    (list of alternatives; [[]] = contributes nothing)"""
    name, kind, argstr, sep = f["name"], f["kind"], f["argstr"], f.get("sep", " ")
    if value is None or argstr is None:
        return [[]]  # "Unset/None fields ... contribute nothing"; argstr None: not part of the command
    if kind == "bool":
        # "False flags ... contribute nothing, True flags contribute their flag"
        return [[argstr]] if value is True else [[]]
    templated = "{" in argstr
    if kind in SCALAR_KINDS:
        s = render(value)
        if templated:
            return [_tmpl_tokens(argstr, name, s)]
        return [([argstr] if argstr else []) + [s]]
    assert kind in LIST_KINDS, kind
    if kind == "multi" and not isinstance(value, (list, tuple)):
        value = [value]  # a MultiInputObj accepts a single object for a one-element list
    elems = [render(e) for e in value]
    rep = argstr.endswith("...")
    base = argstr[:-3] if rep else argstr
    if not elems:
        if kind == "multi":
            return [[]]  # "empty multi-inputs contribute nothing"
        # an empty plain list is not mentioned by the property: nothing, or the bare
        # flag/template words with an empty expansion, are both accepted
        words = [w for w in _tmpl_tokens(base, name, "") if w] if templated else ([base] if base else [])
        return _dedup([[], words])
    alts = []

    def repeated():
        # "repeated with '...'": the flag / template is written once per element
        groups = []
        for e in elems:
            groups.append(_tmpl_tokens(base, name, e) if templated else ([base] if base else []) + [e])
        out = [sum(groups, [])]
        if sep.strip() and kind == "list":
            # the separator is not mentioned for the repeated form; for list[...] fields the test-suite pins
            # it being appended to every element group but the last (`-v aaa, -v bbb, -v ccc`): accept both.
            # (Only there: for a MultiInputObj the elements are formatted one by one and reach the command
            # unchanged, as the property's text says.)
            g2 = [list(g) for g in groups]
            for g in g2[:-1]:
                g[-1] = g[-1] + sep
            out.append(sum(g2, []))
        return out

    def joined():
        # "otherwise joined with the field separator"
        if sep.strip():
            j = sep.join(elems)
            return [_tmpl_tokens(base, name, j) if templated else ([base] if base else []) + [j]]
        # a white-space separator separates ARGUMENTS (docs: `--multi-opt 1 2`)
        if not templated:
            return [([base] if base else []) + elems]
        out = []
        # (i) the elements stay separate arguments, template text around `{name}` sticks to the
        #     first / last element; (ii) the joined text is one argument
        toks_sep, toks_one = [], []
        for tok in base.split():
            ph = "{" + name + "}"
            if ph in tok:
                pre, _, post = tok.partition(ph)
                es = list(elems)
                es[0] = pre + es[0]
                es[-1] = es[-1] + post
                toks_sep += es
                toks_one.append(pre + sep.join(elems) + post)
            else:
                toks_sep.append(tok)
                toks_one.append(tok)
        return [toks_sep, toks_one]

    if rep:
        alts += repeated()
    else:
        alts += joined()
        if kind == "multi":
            # docs (tutorial "Flags and options"): a repeatable option prints "the flag itself
            # multiple times"; the property says "joined" when there is no '...': both accepted
            alts += repeated()
    return _dedup(alts)


def field_order(fields):
    """documented order: non-negative positions ascending, then unpositioned fields in
    definition order, then negative positions ascending"""
    pos = sorted((f for f in fields if f["position"] is not None and f["position"] >= 0), key=lambda f: f["position"])
    none = [f for f in fields if f["position"] is None]
    neg = sorted((f for f in fields if f["position"] is not None and f["position"] < 0), key=lambda f: f["position"])
    return pos + none + neg


def gapfill_order(fields):
    """NOT the documented order -- the deviating order named by the known finding
    `unpositioned-fills-gap-before-positive` (used only to classify a failure narrowly):
    unpositioned fields take, in definition order, the lowest free slots 1..n of a command
    with n fields (a negative position -k occupying slot n+1-k), and only then are the
    fields sorted (non-negative ascending, negative ascending)."""
    n = len(fields)
    taken = {0}
    for f in fields:
        p = f["position"]
        if p is not None:
            taken.add(p if p >= 0 else n + 1 + p)
    free = [i for i in range(1, n + 1) if i not in taken]
    eff = []
    for f in fields:
        p = f["position"]
        if p is None:
            p = free.pop(0)
        eff.append((p, f))
    pos = sorted((e for e in eff if e[0] >= 0), key=lambda e: e[0])
    neg = sorted((e for e in eff if e[0] < 0), key=lambda e: e[0])
    return [f for _, f in pos + neg]


def exe_tokens(executable):
    return [executable] if isinstance(executable, str) else list(executable)


def argv_ref(executable, fields, values, append_args=(), order=field_order, limit=4096):
    """the set (list of lists) of admissible argument vectors"""
    per_field = [contribution(f, values.get(f["name"])) for f in order(fields)]
    n = 1
    for a in per_field:
        n *= len(a)
    assert n <= limit, "too many alternatives"
    out = []
    for combo in itertools.product(*per_field):
        argv = exe_tokens(executable) + sum((list(c) for c in combo), []) + [render(a) for a in append_args]
        if argv not in out:
            out.append(argv)
    return out


def may_reject_definition(fields):
    """A definition may be refused (before any task exists) when two explicit positions name
    the same slot.  With n fields the command has slots 0..n (0 = executable); following the
    Python indexing convention quoted for positions, -k names slot n+1-k.  The property only
    speaks about tasks that exist, so such a refusal is an allowed outcome."""
    n = len(fields)
    slots = {}
    for f in fields:
        p = f["position"]
        if p is None:
            continue
        s = p if p >= 0 else n + 1 + p
        slots.setdefault(s, []).append(f["name"])
    return any(len(v) > 1 for v in slots.values()) or 0 in slots


def supplied_elements(fields, values, append_args=()):
    """every string/path element the caller supplied (C23), with the field it belongs to"""
    out = []
    for f in fields:
        v = values.get(f["name"])
        if v is None or f["argstr"] is None:
            continue
        if f["kind"] in ("str", "file"):
            out.append((f["name"], render(v)))
        elif f["kind"] in LIST_KINDS:
            vs = v if isinstance(v, (list, tuple)) else [v]
            out += [(f["name"], render(e)) for e in vs if isinstance(e, (str, os.PathLike))]
    out += [("append_args", render(a)) for a in append_args]
    return out


# characters that are special to a POSIX-shell *tokeniser* (word splitting + quoting)
RETOKENISE_CHARS = set(" \t\n'\"\\")


def only_tokeniser_damage(got, expected_alternatives):
    """class predicate for the known finding `value-contains-whitespace-quote-or-backslash-
    retokenised` (used only to classify a failure narrowly, never to accept a result): the
    observed argv differs from a documented one ONLY in white space, quotes, backslashes and
    argument boundaries -- every other character arrives, in order, nothing is added -- or the
    command could not be built because of an unbalanced quote / dangling backslash."""
    if got[:1] == ["error"]:
        return got[1] == "ValueError" and any(m in got[2] for m in ("No closing quotation", "No escaped character"))

    def squash(argv):
        return "".join(c for c in "".join(argv) if c not in RETOKENISE_CHARS)

    return any(squash(got) == squash(e) for e in expected_alternatives)


def posix_split(cmdline):
    """C24: 'splitting it with POSIX shell rules' (word splitting and quote removal; no
    expansion is performed because nothing is executed by a shell)"""
    return shlex.split(cmdline)


def needs_more_than_space_quoting(arg):
    """class predicate for C24: an argument that a shell rendering has to quote or escape for a
    reason other than containing a plain space"""
    return arg == "" or any(c in arg for c in "\t\n'\"\\")


# --------------------------------------------------------------------------------------
# C25 : the documented command-line template grammar (docs/source/tutorial/5-shell.ipynb,
#       "Command-line templates", "Defining input/output types", "Flags and options",
#       "Defaults", "Path templates for output files"; shell.define docstring)
# --------------------------------------------------------------------------------------
#   template := executable-word+ item*
#   item     := arg | option " " arg | option arg(flag form, no space => boolean)
#   arg      := "<" ["out|"] name [":" type] [ "?" | "+" | "*" | "=" default | "$" path-template ] ">"
#   option   := "-" letter | "--" word
# An item is a dict: form ("pos" | "opt" | "flag"), name, out (bool), type (str|None),
# mod ("" | "?" | "+" | "*" | "=" | "$"), default (python value for "="), default_text (its
# spelling), path_template (for "$"), option (str for opt/flag).

TYPE_EXT = {"image/png": ".png", "text/csv": ".csv", "application/gzip": ".gz"}  # formats with a fixed extension


def tmpl_item_text(it):
    inner = ("out|" if it.get("out") else "") + it["name"]
    if it.get("type"):
        inner += ":" + it["type"]
    mod = it.get("mod", "")
    if mod in ("?", "+", "*"):
        inner += mod
    elif mod == "=":
        inner += "=" + it["default_text"]
    elif mod == "$":
        inner += "$" + it["path_template"]
    if it["form"] == "pos":
        return "<%s>" % inner
    if it["form"] == "opt":
        return "%s <%s>" % (it["option"], inner)
    return "%s<%s>" % (it["option"], inner)


def tmpl_text(executable, items):
    return " ".join(exe_tokens(executable) + [tmpl_item_text(it) for it in items])


def tmpl_n_tokens(executable, items):
    return len(tmpl_text(executable, items).split())


def tmpl_fields(items):
    """what the docs say the template defines: name -> descriptor
    base      type name as written; default 'fs-object' for arguments, 'str' after an option,
              'bool' for the flag form
    optional  '?'                     -> type `T | None`, default None
    multi     '+' (>= 1 required, no default) / '*' (default: empty list) -> MultiInputObj[T]
    default   ('mandatory',) | ('none',) | ('empty-list',) | ('value', v) | ('template',)
    argstr    the option the field follows, '' for a positional argument
    out       output field (also an input naming the path); path_template as written after '$',
              else the field name plus the format's extension if it has one
    index     1-based place in the template (argv order)"""
    out = {}
    for i, it in enumerate(items):
        form, mod = it["form"], it.get("mod", "")
        if form == "flag":
            d = dict(base="bool", optional=False, multi=False, default=("value", it.get("default", False)), argstr=it["option"], out=False, path_template=None)
        else:
            base = it.get("type") or ("fs-object" if form == "pos" else "str")
            if mod == "?":
                default = ("none",)
            elif mod == "*":
                default = ("empty-list",)
            elif mod == "=":
                default = ("value", it["default"])
            else:
                default = ("mandatory",)
            d = dict(base=base, optional=mod == "?", multi=mod in ("+", "*"), default=default, argstr=it["option"] if form == "opt" else "", out=bool(it.get("out")), path_template=None)
            if it.get("out"):
                d["path_template"] = it["path_template"] if mod == "$" else it["name"] + TYPE_EXT.get(base, "")
                if mod != "?":
                    d["default"] = ("template",)  # "If paths to output files are not provided ... it will default to the name of the field"
        d["index"] = i + 1
        out[it["name"]] = d
    return out


def tmpl_argv(executable, items, values, out_dir):
    """argv of a task defined from the template: the executable, then 'the template's options and
    arguments in template order'.  values: name -> value (missing = not provided).  Returns the
    list of admissible argvs."""
    fields = tmpl_fields(items)
    argv = exe_tokens(executable)
    for it in items:
        d = fields[it["name"]]
        provided = it["name"] in values and values[it["name"]] is not None
        v = values.get(it["name"])
        if not provided:
            kind = d["default"][0]
            if kind == "value":
                v = d["default"][1]
            elif kind == "template":
                v = os.path.join(os.fspath(out_dir), d["path_template"])
            elif kind in ("none", "empty-list"):
                continue
            else:
                raise ValueError("mandatory field %s not provided" % it["name"])
        if d["base"] == "bool" and it["form"] == "flag":
            if v is True:
                argv.append(d["argstr"])
            continue
        def words(e):
            # "Tuple fields are specified by comma separated types": the items of a tuple are
            # consecutive arguments (`--multi-opt 1 2`)
            return [render(i) for i in e] if isinstance(e, (tuple, list)) and "," in d["base"] else [render(e)]

        if d["multi"]:
            for e in v:
                # "for options, this signifies that the flag itself is printed multiple times"
                argv += ([d["argstr"]] if d["argstr"] else []) + words(e)
        else:
            argv += ([d["argstr"]] if d["argstr"] else []) + words(v)
    return [argv]


# --------------------------------------------------------------------------------------
# C26 : output path templates
# --------------------------------------------------------------------------------------
# Property text: "Output files named by path templates always resolve to paths inside the job's
# own cache directory, as a deterministic function of the input values (keeping or dropping the
# input file's extension as declared); an explicitly supplied output path is used as given."
# `path_template` doc: "The template used to specify where the output file will be written to can
# use other fields, e.g. {file1}."


def strictly_inside(path, directory):
    """lexically normalised `path` denotes something strictly below `directory`"""
    p = os.path.normpath(os.fspath(path))
    d = os.path.normpath(os.fspath(directory))
    return os.path.isabs(p) and p != d and os.path.commonpath([p, d]) == d  # (a relative path is not inside)


def ext_readings(filename):
    """'the input file's extension' of a file NAME: everything from the first dot (all suffixes,
    'data.tar.gz' -> '.tar.gz') or only the last suffix ('.gz'); no dot -> no extension"""
    core = filename.lstrip(".")
    lead = filename[: len(filename) - len(core)]
    if "." not in core:
        return [(filename, "")]
    first = core.split(".", 1)
    last = core.rsplit(".", 1)
    out = [(lead + first[0], "." + first[1])]
    if last != first:
        out.append((lead + last[0], "." + last[1]))
    return out


def _is_file(v):
    return isinstance(v, tuple) and len(v) == 2 and v[0] == "file"


def no_usable_last_component(template, refs):
    """class predicate for the known finding `template-formats-to-dot-or-dotdot-escapes-job-dir`:
    the template, formatted with the (non-file) input values, has no last path component that could
    name a file ('..', '.', '' or a trailing '/').  refs: name -> value, a file input given as
    ('file', <file name>)."""
    if any(_is_file(v) for v in refs.values()):
        return False
    try:
        text = template.format(**refs)
    except (KeyError, IndexError, ValueError):
        return False
    return os.path.basename(os.path.normpath(text)) in ("", ".", "..") if text else True


def extension_demand(template, fname, refs):
    """Does the property's extension clause ('keeping or dropping the input file's extension as
    declared') say anything about this template?  It does when the template references the file
    input `fname` and nothing after that reference can be read as the template's OWN extension:
    no '.' in the literal template text after the field (format specs such as {x:.1f} are not
    template text) and no string value with a '.' rendered after it (a string may carry an
    extension; a number does not).  Otherwise every outcome is accepted."""
    import re

    ph = "{" + fname + "}"
    if ph not in template:
        return False
    after = template[template.rindex(ph) + len(ph) :]
    literal = re.sub(r"{[^{}]*}", "", after)
    if "." in literal:
        return False
    for n in re.findall(r"{(\w+)(?::[^{}]*)?}", after):
        v = refs.get(n)
        if isinstance(v, str) and "." in v:
            return False
    return True


def extension_clause_ok(name, filename, keep_extension):
    """The extension clause on a resolved file NAME, accepting every reading of 'the input file's
    extension' (all suffixes from the first dot, or the last suffix only) and of 'keeping' (in
    place or moved to the end of the name):
      keep  -> under SOME reading the extension is still there (name ends with it, or the whole
               input file name occurs in it);
      drop  -> under SOME reading it is gone.
    A file name without extension satisfies the clause trivially."""
    readings = [(stem, ext) for stem, ext in ext_readings(filename) if ext]
    if not readings:
        return True
    present = [name.endswith(ext) or filename in name for _, ext in readings]
    return any(present) if keep_extension else not all(present)
