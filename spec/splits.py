"""Spec functions for C01 / C02 / C04 / C05 -- the reference semantics of splitters and
combiners, written from the PROPERTY TEXT (properties.jsonl) and the user documentation
(docs/source/explanation/splitter-combiner.rst), not from pydra/engine/state.py.

A *splitter tree* is
    "f"              a field,
    [t1, ..., tn]    outer product  (left-most operand varies slowest),
    (t1, ..., tn)    inner product  (operands paired positionally),
and a one-element list / tuple means the same as its element.

Where the text leaves a behaviour open the oracle returns *every* admissible outcome
(`outcomes`), never a single one:

  strict  shapes: shape(field) = (len,), shape([..]) = concatenation, shape((..)) = the
          common shape; an inner product of operands with different shapes is REJECTED.
  blind   an inner product pairs the two enumerations positionally whenever they have the
          same number of elements and is REJECTED otherwise.
  lazy    like blind, but an outer product with an empty operand is the empty list
          whatever its other operands are ("empty splits give an empty list").

strict-accept  =>  blind-accept with the same enumeration;  blind-reject  =>  strict-reject.
So: equal shapes  -> exactly one outcome (the pairing);   different element counts in a
non-empty context -> exactly one outcome (REJECT);   in between (same count, different
shape; or a length mismatch under an empty outer product) both are admissible.
"""

from __future__ import annotations

import itertools

REJECT = "REJECT"


class Rejected(Exception):
    """the reference semantics says this request has no meaning (must not run any job)"""


# --------------------------------------------------------------------------- tree utilities


def is_field(t):
    return isinstance(t, str)


def fields_of(t):
    """fields in left-to-right order"""
    if is_field(t):
        return [t]
    out = []
    for c in t:
        out += fields_of(c)
    return out


def canon(t):
    """hashable, printable canonical key of a tree (lists and tuples kept apart)"""
    if is_field(t):
        return t
    return ("L" if isinstance(t, list) else "T",) + tuple(canon(c) for c in t)


def show(t):
    return repr(t)


def from_json(j):
    """inverse of to_json (JSON has no tuples)"""
    if isinstance(j, str):
        return j
    kind, kids = j["k"], [from_json(c) for c in j["c"]]
    return kids if kind == "L" else tuple(kids)


def to_json(t):
    if is_field(t):
        return t
    return {"k": "L" if isinstance(t, list) else "T", "c": [to_json(c) for c in t]}


def relabel(t, mapping):
    if is_field(t):
        return mapping[t]
    r = [relabel(c, mapping) for c in t]
    return r if isinstance(t, list) else tuple(r)


# --------------------------------------------------------------------------- denotation


def _expand(t, lens, mode):
    """returns (enumeration, shape) ; enumeration = list of {field: index} in job order.
    shape is only meaningful in strict mode."""
    if is_field(t):
        n = lens[t]
        return [{t: i} for i in range(n)], (n,)
    if len(t) == 1:
        return _expand(t[0], lens, mode)
    if isinstance(t, list):
        parts, err = [], None
        for c in t:
            try:
                parts.append(_expand(c, lens, mode))
            except Rejected as e:
                if mode != "lazy":
                    raise
                err = e
                parts.append(None)
        if err is not None:
            # lazy reading: an empty operand makes the whole product empty
            if any(p is not None and len(p[0]) == 0 for p in parts):
                return [], (0,)
            raise err
        enum = [{}]
        shape = ()
        for e, s in parts:  # left-major: the left-most operand varies slowest
            enum = [dict(x, **y) for x in enum for y in e]
            shape = shape + s
        return enum, shape
    # inner product
    parts = [_expand(c, lens, mode) for c in t]
    e0, s0 = parts[0]
    for e, s in parts[1:]:
        if mode == "strict":
            if s != s0:
                raise Rejected(f"inner product of shapes {s0} and {s}")
        elif len(e) != len(e0):
            raise Rejected(f"inner product of {len(e0)} and {len(e)} elements")
    enum = [dict(itertools.chain.from_iterable(d.items() for d in row)) for row in zip(*[e for e, _ in parts])]
    return enum, s0


def expand(splitter, lens, mode="strict"):
    """the job enumeration of `splitter` for list lengths `lens` ({field: n}); raises
    Rejected when the reading `mode` gives the request no meaning"""
    return _expand(splitter, lens, mode)[0]


def shape(splitter, lens):
    """strict shape; raises Rejected on an inner product of unequal shapes"""
    return _expand(splitter, lens, "strict")[1]


def outcomes(splitter, lens):
    """every admissible outcome: a list whose items are REJECT or an enumeration"""
    res = []
    for mode in ("strict", "blind", "lazy"):
        try:
            r = expand(splitter, lens, mode)
        except Rejected:
            r = REJECT
        if r not in res:
            res.append(r)
    return res


def well_shaped(splitter, lens):
    try:
        shape(splitter, lens)
        return True
    except Rejected:
        return False


# --------------------------------------------------------------------------- combiner


def axes(t):
    """axes of a (well-shaped) splitter in enumeration order, each a set of fields linked
    by inner products; raises Rejected when operands of an inner product have a different
    number of axes"""
    if is_field(t):
        return [{t}]
    if len(t) == 1:
        return axes(t[0])
    parts = [axes(c) for c in t]
    if isinstance(t, list):
        return [a for p in parts for a in p]
    n = len(parts[0])
    if any(len(p) != n for p in parts):
        raise Rejected("inner product of operands with a different number of axes")
    return [set().union(*[p[i] for p in parts]) for i in range(n)]


def combined_closure(splitter, combiner):
    """all fields that end up combined: every field sharing an axis with a combiner field"""
    out = set()
    for a in axes(splitter):
        if a & set(combiner):
            out |= a
    return out


def partition(splitter, combiner, lens):
    """list of groups (lists of job indices).  One group per distinct assignment of the
    remaining axes, in enumeration order (= order of first appearance in the job
    enumeration); members in enumeration order.  Combining every axis gives one group."""
    enum = expand(splitter, lens, "strict")
    ax = axes(splitter)
    remaining = [sorted(a)[0] for a in ax if not (a & set(combiner))]
    groups, order = {}, []
    if not remaining:
        return [list(range(len(enum)))]
    for j, st in enumerate(enum):
        key = tuple(st[f] for f in remaining)
        if key not in groups:
            groups[key] = []
            order.append(key)
        groups[key].append(j)
    return [groups[k] for k in order]


def remaining_fields(splitter, combiner):
    cl = combined_closure(splitter, combiner)
    return [f for f in fields_of(splitter) if f not in cl]


# --------------------------------------------------------------------------- containers


def flatten_depth(v, n):
    """elements found at depth n of the nested list v, depth first (n = 1: the items of v)"""
    if n <= 0:
        return [v]
    out = []
    for x in v:
        if n == 1:
            out.append(x)
        else:
            out += flatten_depth(x, n - 1)
    return out


def rect_shape(v, n):
    """shape of v down to depth n if v is rectangular (all siblings alike) else None"""
    if n == 1:
        return (len(v),)
    subs = [rect_shape(x, n - 1) for x in v]
    if any(s is None for s in subs):
        return None
    if not subs:
        return (0,) * n  # an empty list is trivially rectangular
    if any(s != subs[0] for s in subs):
        return None
    return (len(v),) + subs[0]


def ragged_below(v, n):
    """class predicate of the C04 finding: the value is ragged at a level < n, i.e. two
    sibling sub-lists above depth n differ in shape"""
    return n >= 2 and rect_shape(v, n) is None


def nested_lists(depth, maxlen, _counter=None):
    """every nested list of exactly `depth` levels whose lists have 0..maxlen items;
    leaves are distinct integers (numbered depth first)"""

    def shapes(d):
        if d == 0:
            yield None
            return
        subs = list(shapes(d - 1))
        for k in range(maxlen + 1):
            for combo in itertools.product(subs, repeat=k):
                yield list(combo)

    def fill(s, c):
        if s is None:
            c[0] += 1
            return c[0]
        return [fill(x, c) for x in s]

    for s in shapes(depth):
        yield fill(s, [0])


# --------------------------------------------------------------------------- tree generators


def _compositions(n, minparts=2):
    """ordered ways of writing n as a sum of >= minparts positive integers"""
    if minparts <= 1:
        yield (n,)
    for first in range(1, n):
        for rest in _compositions(n - first, minparts - 1 if minparts > 1 else 1):
            yield (first,) + rest


def _dedup(seq):
    seen, out = set(), []
    for x in seq:
        k = canon(x)
        if k not in seen:
            seen.add(k)
            out.append(x)
    return out


def plain_trees(leaves):
    """all trees over the given leaf sequence (left to right) whose internal nodes are
    lists or tuples of arity >= 2, nested arbitrarily"""
    leaves = list(leaves)
    if len(leaves) == 1:
        return [leaves[0]]
    out = []
    for comp in set(_compositions(len(leaves))):
        pos, segs = 0, []
        for k in comp:
            segs.append(leaves[pos : pos + k])
            pos += k
        for kids in itertools.product(*[plain_trees(s) for s in segs]):
            out.append(list(kids))
            out.append(tuple(kids))
    return _dedup(out)


def _wrap_positions(t):
    """every tree obtained from t by wrapping exactly one node (root, internal or leaf)
    in a one-element list or tuple"""
    out = [[t], (t,)]
    if not is_field(t):
        for i, c in enumerate(t):
            for w in _wrap_positions(c):
                kids = list(t)
                kids[i] = w
                out.append(kids if isinstance(t, list) else tuple(kids))
    return out


def with_singletons(trees, max_wrappers=1):
    """trees plus every tree with up to `max_wrappers` one-element list/tuple wrappers"""
    level, allt = list(trees), list(trees)
    for _ in range(max_wrappers):
        nxt = []
        for t in level:
            nxt += _wrap_positions(t)
        level = _dedup(nxt)
        allt += level
    return _dedup(allt)


def splitter_trees(fields="abcd", max_fields=4, max_wrappers=1, labellings="ordered"):
    """every splitter tree over <= max_fields distinct fields.

    labellings = "ordered"  : leaves carry every *subset* of `fields` in alphabetical order
                 "all"      : every injective labelling (every ordered selection of fields)
    """
    out = []
    for k in range(1, max_fields + 1):
        sel = itertools.permutations(fields, k) if labellings == "all" else itertools.combinations(fields, k)
        for leaves in sel:
            out += with_singletons(plain_trees(leaves), max_wrappers)
    return out


def length_vectors(fields, lo, hi):
    fs = list(fields)
    for v in itertools.product(range(lo, hi + 1), repeat=len(fs)):
        yield dict(zip(fs, v))


def nonempty_subsets(fields):
    fs = list(fields)
    for r in range(1, len(fs) + 1):
        for c in itertools.combinations(fs, r):
            yield list(c)


# --------------------------------------------------------------------------- equivalence (C05)


def normal_form(t):
    """normal form under the equivalences named by C05: a one-element list/tuple is its
    element; a chain of outer products (resp. inner products) may be re-bracketed, i.e.
    a list directly inside a list (tuple inside a tuple) is spliced into its parent"""
    if is_field(t):
        return t
    if len(t) == 1:
        return normal_form(t[0])
    kids = []
    for c in t:
        c = normal_form(c)
        if not is_field(c) and type(c) is type(t):
            kids += list(c)
        else:
            kids.append(c)
    return kids if isinstance(t, list) else tuple(kids)


def equivalent(s, t):
    return canon(normal_form(s)) == canon(normal_form(t))


def rebracketings(t):
    """every tree equivalent to the normal-form tree t by re-bracketing its pure chains
    (no singletons): each n-ary node is replaced by every nesting of same-type nodes"""
    if is_field(t):
        return [t]
    kid_opts = [rebracketings(c) for c in t]
    out = []
    typ = list if isinstance(t, list) else tuple

    def group(items):
        # all ways of nesting the sequence `items` with nodes of arity >= 2 of type typ
        if len(items) == 1:
            return [items[0]]
        res = []
        for comp in set(_compositions(len(items))):
            pos, segs = 0, []
            for k in comp:
                segs.append(items[pos : pos + k])
                pos += k
            for kids in itertools.product(*[group(s) for s in segs]):
                res.append(typ(kids))
        return res

    for kids in itertools.product(*kid_opts):
        out += group(list(kids))
    return _dedup(out)
