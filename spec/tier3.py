"""Tier-3 oracles and generators (C29, C30, C32, C33, C34).

Everything here is written from the property statements in /verif/properties.jsonl and the
user documentation, not from the implementation: oracles observe files on disk, attribute
values and outputs, and compare them with what the property text promises.  Where the text
leaves a behaviour open every reading is accepted.
"""


import itertools
import os
import typing as ty
from pathlib import Path

import contextlib
import shutil
import tempfile


@contextlib.contextmanager
def private_hash_cache():
    """point pydra's persistent file-hash cache (documented PYDRA_HASH_CACHE variable) at a scratch
    directory for the duration of a check: the user's ~/.cache is neither read nor filled, and
    Submitter.__call__'s clean-up pass does not have to stat tens of thousands of unrelated entries"""
    old = os.environ.get("PYDRA_HASH_CACHE")
    d = tempfile.mkdtemp(prefix="vf_hashcache_")
    os.environ["PYDRA_HASH_CACHE"] = d
    try:
        yield d
    finally:
        if old is None:
            os.environ.pop("PYDRA_HASH_CACHE", None)
        else:
            os.environ["PYDRA_HASH_CACHE"] = old
        shutil.rmtree(d, ignore_errors=True)


# ======================================================================================
# 1. file trees on disk (shared by C33 / C34)
# ======================================================================================

SRC_LAYOUT = {
    # relative path -> content (str) ; a dict value = directory
    "d1/out.txt": "d1-out",
    "d2/out.txt": "d2-out",
    "d3/out.txt": "d1-out",  # same content as d1/out.txt, different source
    "d1/b.txt": "d1-b",
    "d1/sub": {"x.txt": "d1-sub-x", "inner": {"y.txt": "d1-sub-inner-y"}},
    "d2/sub": {"x.txt": "d2-sub-x"},
    "d2/out": {"z.txt": "d2-outdir-z"},  # directory called `out` (stem collides with out.txt)
    "d1/im.img": "d1-img",
    "d1/im.hdr": '{"a": 1}',
    "d2/im.img": "d2-img",
    "d2/im.hdr": '{"a": 2}',
    "d3/other.hdr": '{"a": 3}',
}


def _write(root: Path, rel: str, content):
    p = root / rel
    if isinstance(content, dict):
        p.mkdir(parents=True, exist_ok=True)
        for k, v in content.items():
            _write(p, k, v)
    else:
        p.parent.mkdir(parents=True, exist_ok=True)
        p.write_text(content)


def build_sources(root: Path) -> Path:
    src = root / "src"
    for rel, content in SRC_LAYOUT.items():
        _write(src, rel, content)
    return src


def snapshot(path: Path):
    """content of a file (bytes) or of a directory tree ({name: snapshot}); symlinks are followed"""
    path = Path(path)
    if path.is_dir():
        return {p.name: snapshot(p) for p in sorted(path.iterdir())}
    return path.read_bytes()


def inside(path: Path, root: Path) -> bool:
    """path (not resolved through symlinks in its last component) lies inside root"""
    a = Path(os.path.abspath(path))
    b = Path(os.path.abspath(root))
    return a != b and a.is_relative_to(b)


def is_fileset(v) -> bool:
    from fileformats.core import FileSet

    return isinstance(v, FileSet)


def fspaths_by_name(fs) -> dict[str, Path]:
    """paths of a file-set keyed by their extension-ish role (suffix), stable across renames"""
    return {"".join(Path(p).suffixes) or "": Path(p) for p in fs.fspaths}


def shape_problems(orig, new, where="$") -> list[str]:
    """nesting shape and non-file values preserved; file-sets stay file-sets of the same class"""
    bad = []
    if is_fileset(orig):
        if not is_fileset(new):
            bad.append(f"{where}: file-set became {type(new).__name__}")
        elif type(new) is not type(orig):
            bad.append(f"{where}: file-set class {type(orig).__name__} became {type(new).__name__}")
        elif len(new.fspaths) != len(orig.fspaths):
            bad.append(f"{where}: file-set has {len(new.fspaths)} paths, had {len(orig.fspaths)}")
        return bad
    if isinstance(orig, dict):
        if type(new) is not type(orig) or list(new.keys()) != list(orig.keys()):
            return [f"{where}: mapping shape changed ({type(orig).__name__}{list(orig)} -> {type(new).__name__}{list(new) if isinstance(new, dict) else ''})"]
        for k in orig:
            bad += shape_problems(orig[k], new[k], f"{where}[{k!r}]")
        return bad
    if isinstance(orig, (list, tuple)):
        if type(new) is not type(orig) or len(new) != len(orig):
            return [f"{where}: sequence shape changed ({type(orig).__name__}/{len(orig)} -> {type(new).__name__}/{len(new) if hasattr(new, '__len__') else '?'})"]
        for i, (o, n) in enumerate(zip(orig, new)):
            bad += shape_problems(o, n, f"{where}[{i}]")
        return bad
    if type(new) is not type(orig) or new != orig:
        bad.append(f"{where}: non-file value {orig!r} became {new!r}")
    return bad


def fileset_pairs(orig, new, where="$"):
    """yield (where, orig_fileset, new_fileset) for every file-set leaf (shapes assumed equal)"""
    if is_fileset(orig):
        if is_fileset(new):
            yield where, orig, new
    elif isinstance(orig, dict) and isinstance(new, dict):
        for k in orig:
            if k in new:
                yield from fileset_pairs(orig[k], new[k], f"{where}[{k!r}]")
    elif isinstance(orig, (list, tuple)) and isinstance(new, (list, tuple)):
        for i, (o, n) in enumerate(zip(orig, new)):
            yield from fileset_pairs(o, n, f"{where}[{i}]")


def path_pairs(ofs, nfs):
    """pair the paths of an original file-set with those of its staged/collected counterpart.
    single path: the obvious pair; several paths: paired by suffix (copies may rename stems)."""
    o, n = sorted(ofs.fspaths), sorted(nfs.fspaths)
    if len(o) == 1 and len(n) == 1:
        return [(Path(o[0]), Path(n[0]))]
    om, nm = fspaths_by_name(ofs), fspaths_by_name(nfs)
    return [(om[k], nm[k]) for k in om if k in nm]


# ======================================================================================
# 2. C33 — workflow output collection
# ======================================================================================


def c33_problems(orig_values: dict, new_values: dict, wf_dir: Path, src_before: dict, src_root: Path) -> list[str]:
    """orig_values/new_values: {output name: value} before / after collection.

    property C33: content preserved; distinct sources never share a destination; nesting shape
    preserved; destinations inside the workflow directory; (no loss) sources untouched."""
    bad = []
    dest_of: dict[Path, set[Path]] = {}
    srcs_of: dict[Path, set[Path]] = {}
    for name in orig_values:
        if name not in new_values:
            bad.append(f"shape: output {name!r} disappeared")
            continue
        bad += ["shape: " + b for b in shape_problems(orig_values[name], new_values[name], name)]
        for where, ofs, nfs in fileset_pairs(orig_values[name], new_values[name], name):
            for op, np_ in path_pairs(ofs, nfs):
                if not inside(np_, wf_dir):
                    bad.append(f"outside: {where}: {np_} is not inside the workflow directory {wf_dir}")
                if not np_.exists():
                    bad.append(f"content: {where}: destination {np_} does not exist")
                elif snapshot(np_) != src_before_lookup(src_before, src_root, op):
                    bad.append(f"content: {where}: content of {np_} differs from source {op}")
                dest_of.setdefault(op, set()).add(np_)
                srcs_of.setdefault(np_, set()).add(op)
    for d, ss in srcs_of.items():
        if len(ss) > 1:
            bad.append(f"clash: distinct sources {sorted(map(str, ss))} map to the same destination {d}")
    dests = sorted(srcs_of)
    for a, b in itertools.combinations(dests, 2):
        if srcs_of[a] != srcs_of[b] and (a.is_relative_to(b) or b.is_relative_to(a)):
            bad.append(f"clash: destination {a} and {b} of distinct sources are nested in each other")
    if snapshot(src_root) != src_before:
        bad.append("loss: the source files were modified or removed by the collection")
    return bad


def src_before_lookup(src_before: dict, src_root: Path, p: Path):
    rel = Path(os.path.abspath(p)).relative_to(os.path.abspath(src_root))
    cur = src_before
    for part in rel.parts:
        cur = cur[part]
    return cur


# leaves for C33 / C34 values: name -> constructor(src_root)
def leaf_factory(src: Path):
    from fileformats.generic import File, Directory
    from fileformats.testing import ImageWithHeader

    return {
        "F1": lambda: File(src / "d1/out.txt"),
        "F2": lambda: File(src / "d2/out.txt"),
        "F3": lambda: File(src / "d3/out.txt"),
        "Fb": lambda: File(src / "d1/b.txt"),
        "D1": lambda: Directory(src / "d1/sub"),
        "D2": lambda: Directory(src / "d2/sub"),
        "Do": lambda: Directory(src / "d2/out"),
        "I1": lambda: ImageWithHeader([src / "d1/im.img", src / "d1/im.hdr"]),
        "I2": lambda: ImageWithHeader([src / "d2/im.img", src / "d2/im.hdr"]),
        "Ix": lambda: ImageWithHeader([src / "d2/im.img", src / "d3/other.hdr"]),  # parts in two dirs
        "N7": lambda: 7,
        "Ss": lambda: "out.txt",  # a plain string that looks like a file name: not a file
    }


LEAF_PATHS = {
    "F1": ["d1/out.txt"], "F2": ["d2/out.txt"], "F3": ["d3/out.txt"], "Fb": ["d1/b.txt"],
    "D1": ["d1/sub"], "D2": ["d2/sub"], "Do": ["d2/out"],
    "I1": ["d1/im.img", "d1/im.hdr"], "I2": ["d2/im.img", "d2/im.hdr"], "Ix": ["d2/im.img", "d3/other.hdr"],
    "N7": [], "Ss": [],
}  # fmt: skip

# shapes: (name, number of slots, builder(slots) -> {output field: value})
C33_SHAPES = [
    ("two-fields", 2, lambda s: {"o1": s[0], "o2": s[1]}),
    ("list+single", 3, lambda s: {"o1": [s[0], s[1]], "o2": s[2]}),
    ("tuple+int", 2, lambda s: {"o1": (s[0], s[1]), "o2": 7}),
    ("dict+single", 3, lambda s: {"o1": {"k1": s[0], "k2": s[1]}, "o2": s[2]}),
    ("list-of-lists", 3, lambda s: {"o1": [[s[0]], [s[1], s[2]]], "o2": "txt"}),
    ("dict-of-list+tuple", 3, lambda s: {"o1": {"k": [s[0], s[1]]}, "o2": (s[2], 7)}),
    ("repeated-object", 2, lambda s: {"o1": [s[0], s[0], s[1]], "o2": s[0]}),
    ("four-deep", 4, lambda s: {"o1": {"a": [(s[0], s[1])], "b": [s[2]]}, "o2": [s[3]]}),
]


def c33_class(leaf_names: ty.Sequence[str], problems: ty.Sequence[str]) -> str | None:
    """finding class of a failing C33 case: the kind of problem + the kinds of leaves involved"""
    kinds = sorted({p.split(":")[0] for p in problems})
    lk = sorted({n[0] for n in leaf_names})  # F file, D directory, I multi-file image, N/S non-file
    return f"{'+'.join(kinds)}@leaves={''.join(lk)}"


# ======================================================================================
# 3. C34 — input staging by copy mode
# ======================================================================================

LEAVE, HARD, SYM, COPY = 1, 2, 4, 8
KIND_NAME = {LEAVE: "leave", HARD: "hardlink", SYM: "symlink", COPY: "copy"}


def realised_kind(orig: Path, staged: Path) -> int | None:
    """how `staged` relates to `orig` on disk: LEAVE (same path), SYM (symlink to it), HARD (same
    inode / for directories: same inodes for every file below), COPY (separate inodes), None = unrelated"""
    orig, staged = Path(orig), Path(staged)
    if os.path.abspath(orig) == os.path.abspath(staged):
        return LEAVE
    if staged.is_symlink():
        return SYM if os.path.realpath(staged) == os.path.realpath(orig) else None
    if not staged.exists():
        return None
    if orig.is_dir():
        if not staged.is_dir():
            return None
        kinds = set()
        for dp, _, fns in os.walk(orig):
            for fn in fns:
                o = Path(dp) / fn
                s = staged / o.relative_to(orig)
                if not s.exists():
                    return None
                kinds.add(HARD if os.stat(o).st_ino == os.stat(s).st_ino else COPY)
        if len(kinds) > 1:
            return None
        return kinds.pop() if kinds else COPY
    return HARD if os.stat(orig).st_ino == os.stat(staged).st_ino else COPY


def some_file_below(p: Path) -> Path:
    p = Path(p)
    if p.is_dir():
        for dp, _, fns in sorted(os.walk(p)):
            for fn in sorted(fns):
                return Path(dp) / fn
        raise ValueError(f"no file below {p}")
    return p


def c34_problems(
    orig_value,
    staged_value,
    mode_mask: int,
    job_dir: Path,
    src_root: Path,
    src_before: dict,
    forbidden: dict[Path, int] | None = None,
    collation: str = "any",
) -> tuple[list[str], dict]:
    """property C34 on one field value.  mode_mask: bit mask of the kinds the field's copy mode
    allows.  forbidden: per original path, kinds ruled out by the (simulated) mount table.
    Returns (problems, info)."""
    bad = ["shape: " + b for b in shape_problems(orig_value, staged_value)]
    info = {"kinds": []}
    dests_of_obj: dict[int, set] = {}
    seen_dest: dict[Path, Path] = {}
    for where, ofs, nfs in fileset_pairs(orig_value, staged_value):
        pairs = path_pairs(ofs, nfs)
        if len(pairs) != len(ofs.fspaths):
            bad.append(f"shape: {where}: could not pair the staged paths {sorted(map(str, nfs.fspaths))} with the originals")
        dests_of_obj.setdefault(id(ofs), set()).add(tuple(sorted(str(n) for _, n in pairs)))
        for op, sp in pairs:
            kind = realised_kind(op, sp)
            info["kinds"].append(KIND_NAME.get(kind, "unrelated"))
            if kind is None:
                bad.append(f"content: {where}: staged path {sp} is neither the original, a link to it nor a copy of it")
                continue
            if not kind & mode_mask:
                bad.append(f"mode: {where}: staged as {KIND_NAME[kind]} which the copy mode does not allow")
            if forbidden and kind & forbidden.get(op, 0):
                bad.append(f"mount: {where}: staged as {KIND_NAME[kind]} although the mount table rules it out for {op}")
            if kind != LEAVE and not inside(sp, job_dir):
                bad.append(f"outside: {where}: staged path {sp} is not inside the job directory")
            if snapshot(sp) != src_before_lookup(src_before, src_root, op):
                bad.append(f"content: {where}: staged {sp} does not show the content of {op}")
            if kind != LEAVE:
                prev = seen_dest.setdefault(sp, op)
                if prev != op:
                    bad.append(f"clash: {where}: {op} and {prev} are both staged at {sp}")
            # behavioural part: copy independent / link shows the original
            o_f, s_f = some_file_below(op), some_file_below(sp) if kind != LEAVE else None
            if kind == COPY:
                before = o_f.read_bytes()
                with open(s_f, "ab") as f:
                    f.write(b"+modified-copy")
                if o_f.read_bytes() != before:
                    bad.append(f"copy-not-independent: {where}: writing to the staged copy {s_f} changed the original {o_f}")
                with open(s_f, "wb") as f:
                    f.write(before)
            elif kind in (HARD, SYM):
                before = o_f.read_bytes()
                with open(o_f, "r+b") as f:  # in-place update of the original
                    f.seek(0, 2)
                    f.write(b"+updated-original")
                if s_f.read_bytes() != before + b"+updated-original":
                    bad.append(f"link-stale: {where}: the link {s_f} does not show the updated content of the original {o_f}")
                with open(o_f, "wb") as f:
                    f.write(before)
        staged_paths = [sp for _, sp in pairs]
        if len(pairs) > 1 and all(realised_kind(o, s) != LEAVE for o, s in pairs):
            if collation in ("siblings", "adjacent") and len({p.parent for p in staged_paths}) != 1:
                bad.append(f"collation: {where}: collation {collation} but the staged paths are in different directories")
            if collation == "adjacent":
                stems = {p.name[: -len("".join(p.suffixes))] if p.suffixes else p.name for p in staged_paths}
                if len(stems) != 1:
                    bad.append(f"collation: {where}: collation adjacent but the staged paths have different stems {sorted(stems)}")
    for oid, dsts in dests_of_obj.items():
        if len(dsts) > 1:
            bad.append(f"staged-twice: one file object appearing several times was staged at {sorted(dsts)}")
    return bad, info


MODES = {
    # name -> mask of allowed realisations (fileformats FileSet.CopyMode documentation)
    "any": LEAVE | HARD | SYM | COPY,
    "leave": LEAVE,
    "copy": COPY,
    "link": HARD | SYM,
    "symlink": SYM,
    "hardlink": HARD,
    "link_or_copy": HARD | SYM | COPY,
    "hardlink_or_copy": HARD | COPY,
    "symlink_or_copy": SYM | COPY,
    "leave_or_copy": LEAVE | COPY,
}

# value shapes for one task: name -> (field types, builder(leaves) -> {field: value}), slots
C34_SHAPES = [
    ("single", 1, "File", lambda s: {"x": s[0]}),
    ("list", 2, "list[File]", lambda s: {"x": [s[0], s[1]]}),
    ("list-repeated", 2, "list[File]", lambda s: {"x": [s[0], s[1], s[0]]}),
    ("dict", 2, "dict[str, File]", lambda s: {"x": {"a": s[0], "b": s[1]}}),
    ("tuple-mixed", 1, "tuple[File, int]", lambda s: {"x": (s[0], 3)}),
    # the file is NOT the first member of a fixed-length heterogeneous tuple (seeded change C34-2: a staging decision that
    # looks at the first type argument only)
    ("tuple-file-last", 1, "tuple[str, File]", lambda s: {"x": ("label", s[0])}),
    ("list-of-tuples-file-last", 2, "list[tuple[int, File]]", lambda s: {"x": [(1, s[0]), (2, s[1])]}),
    ("list-of-lists", 2, "list[list[File]]", lambda s: {"x": [[s[0]], [s[1], s[0]]]}),
    ("dict-of-list", 2, "dict[str, list[File]]", lambda s: {"x": {"k": [s[0], s[1]], "e": []}}),
    ("two-fields", 2, "File;File", lambda s: {"x": s[0], "y": s[1]}),
]


# ======================================================================================
# 4. C32 — task definition <-> dictionary round trip
# ======================================================================================


def _fmt_n(n_fmt):
    return f"--n={n_fmt}" if n_fmt is not None else ""


def _cb_out(stdout: str) -> int:
    return len(stdout)


def _to_int(v):
    return int(v)


def shell_catalog():
    """input / output field templates for generated shell definitions: name -> (factory, sample values)
    The first field (a_int) is always present; its position varies."""
    from pydra.compose import shell
    from fileformats.generic import File

    A = shell.arg
    inputs = {
        "b_str": (lambda: A(type=str, argstr="--b", default="bee", help="a string with a default"), ["bee", "x y"]),
        "c_flag": (lambda: A(type=bool, argstr="-c", default=False, help="a flag"), [False, True]),
        "d_list": (lambda: A(type=list[str] | None, argstr="--d", sep=",", default=None, help="joined by a comma"), [None, ["p", "q"]]),
        "e_multi": (lambda: A(type=list[int] | None, argstr="-e...", default=None), [None, [1, 2]]),
        "f_opt": (lambda: A(type=int | None, argstr="-f", default=None), [None, 3]),
        "g_allowed": (lambda: A(type=str | None, argstr="-g", default=None, allowed_values=["x", "y"]), [None, "x"]),
        "h_tmpl": (lambda: A(type=str | None, argstr="--h {a_int}:{h_tmpl}", default=None), [None, "hh"]),
        "i_file": (lambda: A(type=File, argstr="-i", copy_mode=File.CopyMode.copy, help="a file that is copied"), ["<FILE>"]),
        "j_noarg": (lambda: A(type=str, argstr=None, default="hidden"), ["hidden", "other"]),
        "k_req": (lambda: A(type=int | None, argstr="-k", default=None, requires=["a_int"]), [None, 4]),
        "l_reqval": (lambda: A(type=bool, argstr="-l", default=False, requires=[("a_int", [1, 2])]), [False, True]),
        "n_fmt": (lambda: A(type=int | None, default=None, formatter=_fmt_n), [None, 5]),
        "o_float": (lambda: A(type=float, argstr="--o", default=1.5, position=-1), [1.5, 2.25]),
        "p_last": (lambda: A(type=str, argstr="", default="tail"), ["tail", "end"]),
        # tuple-valued defaults whose element order matters (not ascending)
        "q_size": (lambda: A(type=tuple[int, int], argstr="--size", sep="x", default=(640, 480)), [(640, 480), (3, 1)]),
        "r_axes": (lambda: A(type=tuple[str, str, str], argstr="--axes", sep=",", default=("z", "y", "x")), [("z", "y", "x"), ("a", "c", "b")]),
    }
    O = shell.outarg
    outputs = {
        "out_file": lambda: O(type=File, argstr="-O", path_template="{a_int}_out.txt", help="written by the command"),
        "out_noext": lambda: O(type=File, argstr="--o2", path_template="fixed.dat", keep_extension=False),
        "cb": lambda: shell.out(type=int, callable=_cb_out, help="length of stdout"),
    }
    return inputs, outputs


def shell_definitions(max_extra: int, full_upto: int | None = None):
    """yield (key, builder) for every generated shell definition: a_int with position in (None, 1, -1)
    x every subset of <= max_extra further input templates x output subsets x xor variants x executable
    (position and output-set variation only for subsets of <= full_upto templates)"""
    inputs, outputs = shell_catalog()
    names = list(inputs)
    out_sets = [(), ("out_file",), ("cb",), ("out_file", "out_noext"), ("out_file", "cb")]
    full_upto = max_extra if full_upto is None else full_upto
    for k in range(0, max_extra + 1):
        for extra in itertools.combinations(names, k):
            for a_pos in (None, 1, -1) if k <= full_upto else (None,):
                if a_pos == -1 and "o_float" in extra:
                    continue
                for outs in out_sets if k <= full_upto else [("out_file", "cb")]:
                    xors = [()]
                    if "f_opt" in extra and "g_allowed" in extra:
                        xors += [("f_opt", "g_allowed"), ("f_opt", "g_allowed", None)]
                    for xor in xors:
                        for exe in ("cmd", ("cmd", "sub")) if (k <= 1 and not outs) else ("cmd",):
                            yield ("shell", exe, a_pos, extra, outs, xor)


def build_shell(key):
    from pydra.compose import shell

    _, exe, a_pos, extra, outs, xor = key
    inputs, outputs = shell_catalog()
    ins = {"a_int": shell.arg(type=int, argstr="-a", position=a_pos, help="the first integer")}
    for n in extra:
        ins[n] = inputs[n][0]()
    os_ = {n: outputs[n]() for n in outs}
    kw = {}
    if xor:
        kw["xor"] = list(xor)
    return shell.define(list(exe) if isinstance(exe, tuple) else exe, inputs=ins, outputs=os_, name="GenShell", **kw)


def shell_input_sets(key, file_path: str):
    """input value sets for a generated shell definition (equal inputs are given to both classes)"""
    _, exe, a_pos, extra, outs, xor = key
    inputs, _ = shell_catalog()
    base = {"a_int": 1}
    sets = []
    for pick in (0, 1):
        kw = dict(base)
        for n in extra:
            vals = inputs[n][1]
            v = vals[min(pick, len(vals) - 1)]
            kw[n] = file_path if v == "<FILE>" else v
        if xor and kw.get("f_opt") is not None and kw.get("g_allowed") is not None:
            kw["g_allowed"] = None
        if xor and None not in xor and kw.get("f_opt") is None and kw.get("g_allowed") is None:
            kw["f_opt"] = 3
        sets.append(kw)
    # only what has no default: every other field takes its declared default
    kw = dict(base)
    for n in extra:
        if inputs[n][1][0] == "<FILE>":
            kw[n] = file_path
    if xor and None not in xor:
        kw["f_opt"] = 3
    sets.append(kw)
    return sets


def python_catalog():
    from pydra.compose import python
    from fileformats.generic import File

    A = python.arg
    return {
        # name -> (factory, sample values, expression contributing to the result)
        "b": (lambda: A(type=int, default=2, help="second"), [2, 7], "b"),
        "c": (lambda: A(type=str, default="x", help="a string"), ["x", "hello"], "len(c)"),
        "d": (lambda: A(type=list[int] | None, default=None), [None, [1, 2, 3]], "sum(d or [])"),
        "e": (lambda: A(type=float, default=1.5), [1.5, 2.5], "int(e * 2)"),
        "f": (lambda: A(type=bool, default=False), [False, True], "int(f)"),
        "g": (lambda: A(type=int | None, default=None, requires=["a"]), [None, 4], "(g or 0)"),
        "h": (lambda: A(type=int | None, default=None), [None, 5], "(h or 0)"),
        "i": (lambda: A(type=dict[str, int] | None, default=None), [None, {"k": 9}], "sum((i or {}).values())"),
        "j": (lambda: A(type=int, default=1, allowed_values=[1, 2, 3]), [1, 3], "j"),
        "k": (lambda: A(type=File, copy_mode=File.CopyMode.copy, help="a file"), ["<FILE>"], "len(str(k.fspath.name))"),
        "l": (lambda: A(type=int, default=0, converter=_to_int), [0, 8], "l"),
        "m": (lambda: A(type=ty.Any, default=None), [None, 6], "(m or 0)"),
        # tuple-valued default whose element order matters (not ascending)
        "n": (lambda: A(type=tuple[int, int], default=(3, 1)), [(3, 1), (2, 5)], "(n[0] * 10 + n[1])"),
    }


PY_OUT_SETS = {
    "one": ({"out": int}, "return {expr}"),
    "two-with-help": ("HELP", "return ({expr}), ({expr}) * 2"),
    "list": ({"vals": list[int]}, "return [{expr}, 1]"),
}


def python_definitions(max_extra: int):
    cat = python_catalog()
    for k in range(0, max_extra + 1):
        for extra in itertools.combinations(list(cat), k):
            for outs in PY_OUT_SETS:
                xors = [()]
                if "g" in extra and "h" in extra:
                    xors += [("g", "h", None)]
                for xor in xors:
                    yield ("python", extra, outs, xor)


def build_python(key):
    from pydra.compose import python

    _, extra, outs, xor = key
    cat = python_catalog()
    ins = {"a": python.arg(type=int, help="the first integer")}
    exprs = ["a"]
    for n in extra:
        ins[n] = cat[n][0]()
        exprs.append(cat[n][2])
    out_spec, body = PY_OUT_SETS[outs]
    if out_spec == "HELP":
        out_spec = {"s": python.out(type=int, help="the sum"), "p": python.out(type=int, help="twice the sum")}
    ns = {}
    src = f"def gen_fn({', '.join(ins)}):\n    " + body.format(expr=" + ".join(exprs)) + "\n"
    exec(src, ns)
    kw = {"xor": list(xor)} if xor else {}
    return python.define(ns["gen_fn"], inputs=ins, outputs=out_spec, name="GenPy", **kw)


def python_input_sets(key, file_path: str):
    _, extra, outs, xor = key
    cat = python_catalog()
    sets = []
    for pick in (0, 1):
        kw = {"a": 1 + pick}
        for n in extra:
            vals = cat[n][1]
            v = vals[min(pick, len(vals) - 1)]
            kw[n] = file_path if v == "<FILE>" else v
        if xor and kw.get("g") is not None and kw.get("h") is not None:
            kw["h"] = None
        sets.append(kw)
    # only what has no default: every other field takes its declared default
    sets.insert(1, {"a": 5, **{n: file_path for n in extra if cat[n][1][0] == "<FILE>"}})
    return sets


def field_table(task_class) -> dict:
    """every declared attribute of every input and output field, as plain comparable values"""
    import attrs
    from pydra.utils.general import get_fields

    def norm(v):
        if isinstance(v, (set, frozenset)):
            return ("set", tuple(sorted(map(repr, v))))
        return v

    tab = {}
    for side, fields in (("in", get_fields(task_class)), ("out", get_fields(task_class.Outputs))):
        for f in fields:
            tab[(side, f.name)] = {"__class__": type(f).__name__, **{k: norm(v) for k, v in attrs.asdict(f, recurse=False).items()}}
    return tab


def definition_differences(orig, recreated) -> list[str]:
    """fields / types / defaults / metadata that differ between a task class and its recreation"""
    a, b = field_table(orig), field_table(recreated)
    diffs = []
    for key in a:
        if key not in b:
            diffs.append(f"field-missing:{key[0]}.{key[1]}")
            continue
        for attr_name, v in a[key].items():
            w = b[key].get(attr_name, "<absent>")
            if not (v == w or (v is w)):
                diffs.append(f"attr-differs:{attr_name}:{key[0]}.{key[1]}: {v!r} -> {w!r}")
    for key in b:
        if key not in a:
            diffs.append(f"field-added:{key[0]}.{key[1]}")
    if orig._xor != recreated._xor:
        diffs.append(f"class-attr-differs:xor: {orig._xor!r} -> {recreated._xor!r}")
    if orig.__name__ != recreated.__name__:
        diffs.append(f"class-attr-differs:name: {orig.__name__!r} -> {recreated.__name__!r}")
    if orig._task_type() != recreated._task_type():
        diffs.append("class-attr-differs:task-type")
    return diffs


# ======================================================================================
# 5. C30 — workflow construction cache
# ======================================================================================
# The pool is defined lazily (inside a function) so that importing this module stays cheap;
# the classes are created once per process.

_POOL = {}


def wf_pool():
    """name -> dict(cls, inputs, values, lazy_sets, value_dependent, semantics)"""
    if _POOL:
        return _POOL
    from pydra.compose import python, workflow

    @python.define
    def Add(x: int, y: int) -> int:
        return x + y

    @python.define
    def Mul(x: int, y: int) -> int:
        return x * y

    @python.define
    def Sum(xs: list[int]) -> int:
        return sum(xs)

    @workflow.define
    def WfChain(x: int, y: int) -> int:
        a = workflow.add(Add(x=x, y=y), name="a")
        b = workflow.add(Mul(x=a.out, y=y), name="b")
        return b.out

    @workflow.define
    def WfSplit(xs: list[int], y: int) -> int:
        a = workflow.add(Add(y=y).split(x=xs).combine("x"), name="a")
        s = workflow.add(Sum(xs=a.out), name="s")
        return s.out

    @workflow.define
    def WfBranch(x: int, y: int, flag: bool = False) -> int:
        a = workflow.add(Add(x=x, y=y), name="a")
        if flag:  # documented: constructors may branch on the workflow's inputs
            b = workflow.add(Mul(x=a.out, y=y), name="b")
            return b.out
        return a.out

    @workflow.define
    def WfLoop(x: int, n: int) -> int:
        cur = x
        for i in range(n):  # documented: constructors may loop over the workflow's inputs
            cur = workflow.add(Add(x=cur, y=1), name=f"n{i}").out
        return cur

    @workflow.define(outputs=["out", "echo"])
    def WfPass(x: int, y: int) -> tuple[int, int]:
        a = workflow.add(Add(x=x, y=y), name="a")
        return a.out, y

    @workflow.define
    def WfNested(x: int, y: int) -> int:
        inner = workflow.add(WfChain(x=x, y=y), name="inner")
        m = workflow.add(Mul(x=inner.out, y=2), name="m")
        return m.out

    def entry(cls, values, lazy_sets, semantics, value_dependent=()):
        return dict(cls=cls, values=values, lazy_sets=[frozenset(l) for l in lazy_sets], semantics=semantics, value_dependent=frozenset(value_dependent))

    _POOL.update(
        {
            "WfChain": entry(WfChain, [dict(x=1, y=2), dict(x=3, y=4), dict(x=1, y=4)], [(), ("x",), ("y",), ("x", "y")], lambda x, y: {"out": (x + y) * y}),
            "WfSplit": entry(WfSplit, [dict(xs=[1, 2], y=10), dict(xs=[3, 4, 5], y=20)], [(), ("y",), ("xs",), ("xs", "y")], lambda xs, y: {"out": sum(v + y for v in xs)}),
            "WfBranch": entry(
                WfBranch,
                [dict(x=1, y=2, flag=False), dict(x=3, y=4, flag=True), dict(x=1, y=2, flag=True)],
                [(), ("flag",), ("x",), ("x", "y", "flag")],
                lambda x, y, flag: {"out": (x + y) * y if flag else x + y},
                value_dependent=("flag",),
            ),
            "WfLoop": entry(WfLoop, [dict(x=1, n=1), dict(x=5, n=3)], [(), ("x",), ("n",)], lambda x, n: {"out": x + n}, value_dependent=("n",)),
            "WfPass": entry(WfPass, [dict(x=1, y=2), dict(x=3, y=4)], [(), ("y",), ("x", "y")], lambda x, y: {"out": x + y, "echo": y}),
            "WfNested": entry(WfNested, [dict(x=1, y=2), dict(x=3, y=4)], [(), ("x",), ("x", "y")], lambda x, y: {"out": (x + y) * y * 2}),
        }
    )
    return _POOL


def _resolve(v, wf):
    """abstract value of a node input / output connection; workflow-input placeholders are read through
    the workflow's own inputs (that is what running the workflow does)"""
    from pydra.engine.lazy import LazyInField, LazyOutField

    from pydra.utils.typing import StateArray

    def plain(x):
        # a split turns a list value into a StateArray of the same elements: same value for the property
        if isinstance(x, StateArray):
            return [plain(i) for i in x]
        if isinstance(x, list):
            return [plain(i) for i in x]
        return x

    if isinstance(v, LazyInField):
        cur = getattr(wf.inputs, v._field)
        if isinstance(cur, LazyInField):
            return ("workflow-input", v._field)
        return ("value", repr(plain(cur)))
    if isinstance(v, LazyOutField):
        return ("node-output", v._node.name, v._field)
    if isinstance(v, (list, tuple)) and any(isinstance(i, (LazyInField, LazyOutField)) for i in v):
        return ("seq", tuple(_resolve(i, wf) for i in v))
    return ("value", repr(plain(v)))


def _state_view(state):
    if state is None:
        return None
    return {
        "splitter": repr(state.splitter),
        "combiner": repr(sorted(state.combiner)) if state.combiner else "[]",
        "splitter_rpn": repr(state.splitter_rpn),
        "splitter_final": repr(state.splitter_final),
        "other_states": sorted((k, tuple(v[1])) for k, v in (state.other_states or {}).items()),
    }


def wf_view(wf, lazy: frozenset, values: dict) -> dict:
    """the observable graph of a constructed workflow: nodes in order, their task class, resolved
    input values, splitter/combiner/state, the edges implied by the connections, the workflow's
    inputs and its output connections"""
    import attrs
    from pydra.utils.general import attrs_values, get_fields
    from pydra.engine.lazy import LazyOutField

    nodes, edges = [], set()
    for node in wf.nodes:
        ins = {}
        for f in get_fields(node._task):
            v = getattr(node._task, f.name)
            if callable(v) and f.name in ("function", "constructor"):
                continue
            r = _resolve(v, wf)
            ins[f.name] = r
            for lf in v if isinstance(v, (list, tuple)) else [v]:
                if isinstance(lf, LazyOutField):
                    edges.add((lf._node.name, node.name))
        nodes.append(
            {
                "name": node.name,
                "task": type(node._task).__name__,
                "inputs": ins,
                "task_splitter": repr(node._task._splitter),
                "task_combiner": repr(node._task._combiner),
                "state": _state_view(node.state),
            }
        )
    win = {}
    for n in values:
        cur = getattr(wf.inputs, n)
        win[n] = _resolve(cur, wf) if not _is_lazy(cur) else ("workflow-input", n)
    outs = {n: _resolve(v, wf) for n, v in attrs_values(wf.outputs).items() if not n.startswith("_")}
    return {"nodes": nodes, "edges": sorted(edges), "inputs": win, "outputs": outs}


def _is_lazy(v):
    from pydra.engine.lazy import LazyField

    return isinstance(v, LazyField)


def expected_inputs_view(values: dict, lazy: frozenset) -> dict:
    """what the property says about a construction's own inputs: the values given to THIS
    construction for the non-lazy names, placeholders for the lazy ones"""
    return {n: ("workflow-input", n) if n in lazy else ("value", repr(v)) for n, v in values.items()}


def view_diff(ref, got, path="") -> list[str]:
    if type(ref) is not type(got):
        return [f"{path}: {ref!r} != {got!r}"[:300]]
    if isinstance(ref, dict):
        out = []
        for k in sorted(set(ref) | set(got), key=repr):
            if k not in ref or k not in got:
                out.append(f"{path}.{k}: {'missing' if k not in got else 'unexpected'} ({(ref.get(k), got.get(k))!r})"[:300])
            else:
                out += view_diff(ref[k], got[k], f"{path}.{k}")
        return out
    if isinstance(ref, list):
        if len(ref) != len(got):
            names = lambda l: [i.get("name", i) if isinstance(i, dict) else i for i in l]  # noqa
            return [f"{path}: length {len(ref)} != {len(got)} ({names(ref)!r} vs {names(got)!r})"[:300]]
        out = []
        for i, (a, b) in enumerate(zip(ref, got)):
            out += view_diff(a, b, f"{path}[{i}]")
        return out
    return [] if ref == got else [f"{path}: {ref!r} != {got!r}"[:300]]


def wf_ops(name: str, with_runs: bool = True):
    """operation alphabet for one pooled workflow: (kind, value index, lazy set, cache?)
    kinds: C construct; G construct + graph(detailed); R run new task instance; S run the same task instance again"""
    e = wf_pool()[name]
    ops = []
    for vi in range(len(e["values"])):
        for lz in e["lazy_sets"]:
            ops.append(("C", vi, lz, True))
            ops.append(("C", vi, lz, False))
            ops.append(("G", vi, lz, True))
        if with_runs:
            ops.append(("R", vi, frozenset(), True))
            ops.append(("S", vi, frozenset(), True))
    return ops


# ======================================================================================
# 6. C29 — serialization to another process
# ======================================================================================
# Module-level task definitions: importable in the child interpreter (PYTHONPATH=/repo:/verif),
# so cloudpickle ships them by reference; `p29_local_task` builds one that must travel by value.

from fileformats.generic import File as _File  # noqa: E402
from pydra.compose import python as _python, shell as _shell, workflow as _workflow  # noqa: E402


@_python.define
def P29Add(a: int, b: int) -> int:
    return a + b


@_python.define
def P29Mul(a: int, b: int) -> int:
    return a * b


@_python.define
def P29Sum(xs: list[int]) -> int:
    return sum(xs)


@_python.define(outputs={"mean": float, "n": int, "label": str})
def P29Stats(xs: list[float], label: str = "s"):
    return sum(xs) / len(xs), len(xs), label.upper()


@_python.define
def P29Containers(d: dict[str, int], t: tuple[int, str], tags: frozenset[str] = frozenset()) -> int:
    return sum(d.values()) + t[0] + len(t[1]) + len(tags)


@_python.define
def P29FileLen(f: _File) -> int:
    return len(Path(f).read_text())


@_python.define
def P29WriteFile(text: str) -> _File:
    p = Path.cwd() / "written.txt"
    p.write_text(text)
    return _File(p)


@_python.define
def P29Fail(a: int) -> int:
    raise ValueError(f"deliberate failure {a}")


def p29_local_task():
    """a task class that cannot be imported by name in the child: it has to be pickled by value"""
    offset = 100

    def local_fn(a: int) -> int:
        return a + offset

    return _python.define(local_fn, name="P29Local")


@_shell.define
class S29Echo(_shell.Task["S29Echo.Outputs"]):
    executable = "echo"
    text: str = _shell.arg(argstr="", position=2, help="what to print")
    flag: bool = _shell.arg(argstr="-n", default=False, position=1, help="no newline")

    class Outputs(_shell.Outputs):
        pass


@_shell.define
class S29Copy(_shell.Task["S29Copy.Outputs"]):
    executable = "cp"
    in_file: _File = _shell.arg(argstr="", position=1, help="source")

    class Outputs(_shell.Outputs):
        out_file: _File = _shell.outarg(argstr="", position=2, path_template="copied.txt", help="destination")


@_workflow.define
def W29Chain(x: int, y: int) -> int:
    a = _workflow.add(P29Add(a=x, b=y), name="a")
    m = _workflow.add(P29Mul(a=a.out, b=y), name="m")
    return m.out


@_workflow.define
def W29Split(xs: list[int], y: int) -> int:
    a = _workflow.add(P29Add(b=y).split(a=xs).combine("a"), name="a")
    s = _workflow.add(P29Sum(xs=a.out), name="s")
    return s.out


@_workflow.define
def W29Nested(x: int, y: int) -> int:
    inner = _workflow.add(W29Chain(x=x, y=y), name="inner")
    m = _workflow.add(P29Mul(a=inner.out, b=2), name="m")
    return m.out


@_workflow.define(outputs={"f": _File})
def W29File(text: str):
    w = _workflow.add(P29WriteFile(text=text), name="w")
    return w.out


def p29_pool(src: Path):
    """name -> (task factory, expected outputs as plain values; files as ('file', content))"""
    f = src / "d1/out.txt"
    return {
        "py-add": (lambda: P29Add(a=1, b=2), {"out": 3}),
        "py-stats": (lambda: P29Stats(xs=[1.0, 2.0, 6.0], label="ab"), {"mean": 3.0, "n": 3, "label": "AB"}),
        "py-containers": (lambda: P29Containers(d={"k": 1, "j": 2}, t=(3, "xy"), tags=frozenset({"p", "q", "r"})), {"out": 11}),
        "py-file-in": (lambda: P29FileLen(f=_File(f)), {"out": 6}),
        "py-file-out": (lambda: P29WriteFile(text="hello"), {"out": ("file", "hello")}),
        "py-by-value": (lambda: p29_local_task()(a=5), {"out": 105}),
        "py-fail": (lambda: P29Fail(a=1), "errors"),
        "sh-echo": (lambda: S29Echo(text="hello"), {"stdout": "hello\n", "return_code": 0}),
        "sh-copy": (lambda: S29Copy(in_file=_File(f)), {"out_file": ("file", "d1-out"), "return_code": 0}),
        "wf-chain": (lambda: W29Chain(x=1, y=2), {"out": 6}),
        "wf-split": (lambda: W29Split(xs=[1, 2, 3], y=10), {"out": 36}),
        "wf-nested": (lambda: W29Nested(x=1, y=2), {"out": 12}),
        "wf-file": (lambda: W29File(text="from-wf"), {"f": ("file", "from-wf")}),
    }


P29_CONFIGS = {
    "debug": dict(worker="debug"),
    "cf-1": dict(worker="cf", n_procs=1),
    "cf-2": dict(worker="cf", n_procs=2),
    "debug-ro-cache": dict(worker="debug", readonly="ro"),
    "cf-2-limited": dict(worker="cf", n_procs=2, max_concurrent=1, propagate_rerun=False),
    # the worker handed over as a pre-built, non-default INSTANCE (no worker keyword arguments at the submitter)
    "cf-instance-3": dict(worker_instance={"n_procs": 3}),
}


def plain_outputs(outputs) -> dict:
    """outputs object -> {name: plain value}; files become ('file', content, path)"""
    import attrs
    from fileformats.core import FileSet

    out = {}
    if outputs is None:
        return out
    for a in attrs.fields(type(outputs)):
        if a.name.startswith("_"):
            continue
        v = getattr(outputs, a.name)
        if isinstance(v, FileSet):
            p = Path(v.fspath)
            v = ("file", p.read_text() if p.exists() else None, str(p))
        out[a.name] = v
    return out


def stable_repr(v) -> str:
    """repr that does not depend on set iteration order (which legitimately differs between processes)"""
    if isinstance(v, (set, frozenset)):
        return type(v).__name__ + "{" + ", ".join(sorted(stable_repr(i) for i in v)) + "}"
    if isinstance(v, dict):
        return "{" + ", ".join(f"{stable_repr(k)}: {stable_repr(x)}" for k, x in v.items()) + "}"
    if isinstance(v, (list, tuple)):
        return type(v).__name__ + "(" + ", ".join(stable_repr(i) for i in v) + ")"
    return repr(v)


def job_observables(job) -> dict:
    """what a client can observe about a job without running it (property: same cache identity and attributes)"""
    from pydra.utils.general import get_fields

    task = job.task
    fields = {}
    for f in get_fields(task):
        v = getattr(task, f.name)
        fields[f.name] = f"<callable {getattr(v, '__name__', '?')}>" if callable(v) and not isinstance(v, type) else stable_repr(v)
    return {
        "name": job.name,
        "uid": job.uid,
        "checksum": job.checksum,
        "task_checksum": task._checksum,
        "cache_dir": str(job.cache_dir),
        "cache_root": str(job.cache_root),
        "all_caches": [str(p) for p in job.all_caches],
        "lockfile": str(job.lockfile),
        "state_index": job.state_index,
        "output_names": list(job.output_names),
        "task_class": type(task).__name__,
        "task_fields": fields,
        "task_splitter": repr(task._splitter),
        "environment": type(job.environment).__name__,
        "errored": job.errored,
        "is_async": job.is_async,
        "submitter": submitter_observables(job.submitter),
    }


def submitter_observables(sub) -> dict:
    w = sub.worker
    return {
        "cache_root": str(sub.cache_root),
        "readonly_caches": [str(p) for p in (sub.readonly_caches or [])],
        "max_concurrent": sub.max_concurrent,
        "propagate_rerun": sub.propagate_rerun,
        "clean_stale_locks": sub.clean_stale_locks,
        "environment": type(sub.environment).__name__,
        "audit_flags": repr(sub.audit.audit_flags),
        "worker": worker_observables(w),
    }


def worker_observables(w) -> dict:
    return {"plugin": w.plugin_name(), "class": type(w).__name__, "is_async": w.is_async, "n_procs": getattr(w, "n_procs", None)}


def liveness(sub) -> list[str]:
    """property: submitter and worker survive - their event loop and process pool are usable again"""
    import asyncio
    import concurrent.futures as cf

    bad = []
    if not isinstance(sub.loop, asyncio.AbstractEventLoop):
        bad.append(f"submitter.loop is {sub.loop!r}")
    elif sub.loop.is_closed():
        bad.append("submitter.loop is closed")
    if sub.worker.loop is not sub.loop:
        bad.append("worker.loop is not the submitter's loop")
    if sub.worker.plugin_name() == "cf":
        pool = getattr(sub.worker, "pool", None)
        if not isinstance(pool, cf.ProcessPoolExecutor):
            bad.append(f"cf worker pool is {pool!r}")
    return bad


def c29_child(request_path: str, response_path: str):
    """runs in a FRESH interpreter: unpickle, observe, run, report"""
    import pickle
    import traceback
    import cloudpickle as cp

    os.environ.setdefault("NO_ET", "true")
    with open(request_path, "rb") as f:
        items = pickle.load(f)
    out = []
    for item in items:
        rep = {"id": item["id"], "kind": item["kind"]}
        try:
            if item["kind"] == "job":
                from pydra.engine.job import load_and_run, load_job

                job = load_job(item["pkl"])  # the real loader used by the batch workers
                rep["observables"] = job_observables(job)
                rep["liveness"] = liveness(job.submitter)
                try:
                    load_and_run(Path(item["pkl"]))
                    rep["raised"] = None
                except Exception as e:
                    rep["raised"] = f"{type(e).__name__}: {str(e)[:200]}"
                res = job.result()
                rep["result_errored"] = None if res is None else res.errored
                rep["outputs"] = plain_outputs(res.outputs) if res is not None and not res.errored else None
                # a result written by the PARENT process, read here
                if item.get("pre_pkl"):
                    pre = load_job(item["pre_pkl"])
                    r2 = pre.result()
                    rep["pre_errored"] = None if r2 is None else r2.errored
                    rep["pre_outputs"] = plain_outputs(r2.outputs) if r2 is not None and not r2.errored else None
                    rep["pre_errors"] = bool(r2.errors) if r2 is not None and r2.errored else None
                job.submitter.close()
            elif item["kind"] == "submitter":
                sub = cp.loads(item["blob"])
                rep["observables"] = submitter_observables(sub)
                rep["liveness"] = liveness(sub)
                task = cp.loads(item["task_blob"])
                try:
                    res = sub(task)
                    rep["outputs"] = plain_outputs(res.outputs)
                    rep["raised"] = None
                except Exception as e:
                    rep["raised"] = f"{type(e).__name__}: {str(e)[:300]}"
                sub.close()
            elif item["kind"] == "worker":
                w = cp.loads(item["blob"])
                rep["observables"] = worker_observables(w)
                rep["loop"] = repr(w.loop)
                if hasattr(w, "pool"):
                    import concurrent.futures as cf

                    rep["pool_ok"] = isinstance(w.pool, cf.ProcessPoolExecutor)
                    fut = w.pool.submit(int, "7")
                    rep["pool_result"] = fut.result(timeout=60)
                w.close()
            elif item["kind"] == "result":
                import attrs

                r = cp.loads(item["blob"])
                rep["result"] = {
                    "cache_dir": str(r.cache_dir),
                    "errored": r.errored,
                    "runtime": None if r.runtime is None else attrs.asdict(r.runtime),
                    "outputs": plain_outputs(r.outputs),
                    "task": None if r.task is None else type(r.task).__name__,
                    "task_checksum": None if r.task is None else r.task._checksum,
                }
                rep["reblob"] = cp.dumps(r)  # and back again
        except Exception:
            rep["child_error"] = traceback.format_exc()[-1500:]
        out.append(rep)
    with open(response_path, "wb") as f:
        pickle.dump(out, f)


def expected_matches(expected: dict, got: dict | None) -> list[str]:
    """got: plain_outputs of the real result; expected: {name: value | ('file', content)}"""
    if got is None:
        return ["no outputs"]
    bad = []
    for k, v in expected.items():
        g = got.get(k, "<absent>")
        if isinstance(v, tuple) and v and v[0] == "file":
            if not (isinstance(g, tuple) and g[0] == "file" and g[1] == v[1]):
                bad.append(f"{k}: expected a file holding {v[1]!r}, got {g!r}")
        elif g != v:
            bad.append(f"{k}: expected {v!r}, got {g!r}")
    return bad
