"""Reference semantics for the typed-field properties C20 / C21.

Written from the property text ("stored as a value that conforms to the declared type,
element types included; strings are never silently split into sequences nor sequences
joined into strings; coercing an accepted value again leaves it unchanged") and from
docs/source/explanation/typing.rst — NOT from pydra/utils/typing.py.  Only the standard
library's `typing.get_origin/get_args` is used to take a declared type apart.

Contents
  grammar(depth, ...)        the type grammar of the properties' quantifier
  conforms(value, T)         structural conformance, element types included
  values_of(T, env)          a small set of values conforming to T
  values_outside(T, env, .)  values not conforming to T (near misses + a general pool)
  strseq_violation(v, c)     did coercion v -> c split a str into a container / join one into a str
  same_value(a, b)           equality that also compares the (nested) Python types
  arity_mismatch(v, T)       the "fixed-length tuple arity aside" exemption of C21
"""

from __future__ import annotations

import itertools
import typing as ty
from pathlib import Path, PurePath

NoneType = type(None)

# ------------------------------------------------------------------------------------
# the grammar
# ------------------------------------------------------------------------------------


def _file_type():
    from fileformats.generic import File

    return File


def _mio():
    # the *type constructor* is part of pydra's public typing vocabulary (the property names
    # it); its meaning here is the documented one: "a list of T; a single T is wrapped"
    from pydra.utils.typing import MultiInputObj

    return MultiInputObj


def atoms():
    return [int, float, str, bool, bytes, Path, _file_type()]


def is_union(T):
    import types

    return ty.get_origin(T) in (ty.Union, types.UnionType)


def kind(T):
    """constructor name of a declared type"""
    if T is None or T is NoneType:
        return "none"
    if is_union(T):
        return "union"
    o = ty.get_origin(T)
    if o is None:
        return "atom"
    if o is list:
        return "list"
    if o is set:
        return "set"
    if o is dict:
        return "dict"
    if o is tuple:
        a = ty.get_args(T)
        return "vtuple" if len(a) == 2 and a[1] is Ellipsis else "tuple"
    if o is _mio():
        return "mio"
    raise ValueError(f"type outside the grammar: {T!r}")


def targs(T):
    """the component types of a declared type (Ellipsis dropped, None -> NoneType)"""
    return [NoneType if a is None else a for a in ty.get_args(T) if a is not Ellipsis]


def tname(T):
    """canonical, stable name of a grammar type (used as case key)"""
    k = kind(T)
    if k == "none":
        return "None"
    if k == "atom":
        return T.__name__
    a = [tname(x) for x in targs(T)]
    if k == "union":
        return "Union[" + ",".join(a) + "]"
    if k == "vtuple":
        return f"tuple[{a[0]},...]"
    if k == "mio":
        return f"MultiInputObj[{a[0]}]"
    return f"{k}[{','.join(a)}]"


def depth(T):
    k = kind(T)
    if k in ("atom", "none"):
        return 0
    return 1 + max(depth(a) for a in targs(T))


def hashable_type(T):
    """can a value conforming to T be a set element / dict key"""
    k = kind(T)
    if k in ("atom", "none"):
        return True
    if k in ("tuple", "vtuple", "union"):
        return all(hashable_type(a) for a in targs(T))
    return False


def build(kind_, args):
    if kind_ == "union":
        return ty.Union[tuple(args)]
    if kind_ == "list":
        return list[args[0]]
    if kind_ == "set":
        return set[args[0]]
    if kind_ == "dict":
        return dict[args[0], args[1]]
    if kind_ == "tuple":
        return tuple[tuple(args)]
    if kind_ == "vtuple":
        return tuple[args[0], ...]
    if kind_ == "mio":
        return _mio()[args[0]]
    raise ValueError(kind_)


def well_formed(T):
    """set elements and dict keys must be hashable types; unions need >= 2 distinct members
    (typing collapses duplicates itself)"""
    k = kind(T)
    if k in ("atom", "none"):
        return True
    a = targs(T)
    if not all(well_formed(x) for x in a):
        return False
    if k == "set":
        return hashable_type(a[0]) and kind(a[0]) != "none"
    if k == "dict":
        return hashable_type(a[0]) and kind(a[0]) != "none" and kind(a[1]) != "none"
    if k == "union":
        return len(a) >= 2
    return all(kind(x) != "none" for x in a)


def grammar(max_depth=2, binary_other=None, ordered_unions=True):
    """every well-formed type of nesting depth <= max_depth.

    binary_other : if given, the binary constructors Union / tuple[X, Y] / dict[K, V] at the
                   OUTERMOST level only take pairs with one component from the full set of
                   depth <= max_depth-1 types and the other from `binary_other` (both orders);
                   default None = the full square.
    Optional[X] is Union[X, None].  Unions are generated in both member orders when
    ordered_unions (coercion into a union is order-sensitive by nature).
    """
    A = atoms()
    levels = [list(A)]
    seen = {tname(t) for t in A}
    for d in range(1, max_depth + 1):
        comp = [t for lvl in levels for t in lvl]
        bcomp = comp if binary_other is None or d < max_depth else list(binary_other)
        new = []

        def add(T):
            if not well_formed(T):
                return
            n = tname(T)
            if n not in seen:
                seen.add(n)
                new.append(T)

        for x in comp:
            for k in ("list", "vtuple", "set", "mio"):
                add(build(k, [x]))
            if kind(x) != "union":
                add(ty.Union[x, None])  # Optional[x]
            elif NoneType not in targs(x):
                add(ty.Union[tuple(targs(x)) + (NoneType,)])
        for x in comp:
            for y in bcomp:
                for p, q in ((x, y), (y, x)):
                    add(build("tuple", [p, q]))
                    add(build("dict", [p, q]))
                    if tname(p) != tname(q) and (ordered_unions or tname(p) < tname(q)):
                        add(ty.Union[p, q])
        levels.append(new)
    return [t for lvl in levels for t in lvl]


def parse_tname(s):
    """inverse of tname (used by replay files)"""
    A = {t.__name__: t for t in atoms()}
    pos = [0]

    def peek():
        return s[pos[0]] if pos[0] < len(s) else ""

    def ident():
        i = pos[0]
        while pos[0] < len(s) and (s[pos[0]].isalnum() or s[pos[0]] == "_"):
            pos[0] += 1
        return s[i : pos[0]]

    def parse():
        name = ident()
        if name == "None":
            return NoneType
        if peek() != "[":
            return A[name]
        pos[0] += 1
        args, variadic = [], False
        while True:
            if s.startswith("...", pos[0]):
                pos[0] += 3
                variadic = True
            else:
                args.append(parse())
            if peek() == ",":
                pos[0] += 1
                continue
            assert peek() == "]", (s, pos[0])
            pos[0] += 1
            break
        if name == "Union":
            return ty.Union[tuple(args)]
        if name == "tuple":
            return build("vtuple" if variadic else "tuple", args)
        if name == "MultiInputObj":
            return build("mio", args)
        return build(name, args)

    T = parse()
    assert pos[0] == len(s), (s, pos[0])
    return T


# ------------------------------------------------------------------------------------
# conformance
# ------------------------------------------------------------------------------------


def conforms(v, T, strict_float=False):
    """does value v conform to declared type T, element types included.

    Nominal reading (isinstance), i.e. the weakest sensible one: bool conforms to int,
    int conforms to float (PEP 484 numeric tower), subclasses conform to their bases,
    a MultiInputObj[X] is "a list of X" (any list).
    strict_float=True drops the numeric-tower reading (only used to LOCATE which union member
    a value belongs to when classifying a finding, never to decide a verdict)."""
    k = kind(T)
    if k == "none":
        return v is None
    if k == "atom":
        if T is float:
            return isinstance(v, float) if strict_float else isinstance(v, (float, int))
        return isinstance(v, T)
    a = targs(T)
    sf = strict_float
    if k == "union":
        return any(conforms(v, m, sf) for m in a)
    if k in ("list", "mio"):
        return isinstance(v, list) and all(conforms(e, a[0], sf) for e in v)
    if k == "set":
        return isinstance(v, set) and all(conforms(e, a[0], sf) for e in v)
    if k == "vtuple":
        return isinstance(v, tuple) and all(conforms(e, a[0], sf) for e in v)
    if k == "tuple":
        return isinstance(v, tuple) and len(v) == len(a) and all(conforms(e, t, sf) for e, t in zip(v, a))
    if k == "dict":
        return isinstance(v, dict) and all(conforms(kk, a[0], sf) and conforms(vv, a[1], sf) for kk, vv in v.items())
    raise AssertionError(k)


def same_value(a, b):
    """a == b and the same Python types at every level (1 == 1.0 == True are different)"""
    if type(a) is not type(b):
        return False
    if isinstance(a, (list, tuple)):
        return len(a) == len(b) and all(same_value(x, y) for x, y in zip(a, b))
    if isinstance(a, dict):
        return len(a) == len(b) and all(same_value(k1, k2) and same_value(a[k1], b[k2]) for k1, k2 in zip(a, b))
    if isinstance(a, (set, frozenset)):
        if a != b:
            return False
        # equal sets of mixed numeric types: compare the multiset of (type, value)
        return sorted((type(x).__name__, repr(x)) for x in a) == sorted((type(x).__name__, repr(x)) for x in b)
    return a == b


# ------------------------------------------------------------------------------------
# str <-> container conversions
# ------------------------------------------------------------------------------------

_CONTAINERS = (list, tuple, set, frozenset, dict)


def _first_bad(pairs):
    for x, y in pairs:
        bad = strseq_violation(x, y)
        if bad:
            return bad
    return None


def strseq_violation(v, c):
    """None if the coercion v -> c neither split a str into a container nor turned a container
    into a str (at any nesting level that can be aligned); otherwise (kind, v_part, c_part)
    with kind in {"str-split", "seq-joined"} and the innermost offending parts.

    Wrapping a value whole into a one-element list (the documented MultiInputObj behaviour)
    is not a split: the wrapped element is judged instead.  Where the alignment of v and c is
    ambiguous (element-wise vs wrapped, or the iteration order of a set) every reading is
    tried and the coercion is accepted if one of them is clean."""
    if isinstance(v, str):
        if isinstance(c, _CONTAINERS):
            if isinstance(c, list) and len(c) == 1:
                return strseq_violation(v, c[0])
            return ("str-split", v, c)
        return None
    if isinstance(v, (list, tuple, set, frozenset)):
        if isinstance(c, str):
            return ("seq-joined", v, c)
        if isinstance(c, (list, tuple)):
            readings = []
            if len(v) == len(c):
                if isinstance(v, (list, tuple)):
                    readings.append(_first_bad(zip(v, c)))
                elif len(v) <= 3:
                    perms = [_first_bad(zip(p, c)) for p in itertools.permutations(v)]
                    readings.append(None if any(x is None for x in perms) else perms[0])
                else:
                    readings.append(None)
            if isinstance(c, list) and len(c) == 1:
                readings.append(strseq_violation(v, c[0]))
            if readings and all(r is not None for r in readings):
                return readings[0]
        return None
    if isinstance(v, dict):
        if isinstance(c, str):
            return ("seq-joined", v, c)
        if isinstance(c, dict) and len(c) == len(v):
            for (k1, v1), (k2, v2) in zip(v.items(), c.items()):
                bad = strseq_violation(k1, k2) or strseq_violation(v1, v2)
                if bad:
                    return bad
        return None
    return None


def diff_positions(c, c2, T):
    """where do c and c2 (both read against declared type T) differ: list of
    (node_kind, T_node, c_part, c2_part), stopping at the first Union node on each path"""
    if same_value(c, c2):
        return []
    k = kind(T)
    if k in ("atom", "none", "union"):
        return [(k, T, c, c2)]
    a = targs(T)
    if type(c) is not type(c2) or not isinstance(c, (list, tuple, dict, set)):
        return [("struct", T, c, c2)]
    if isinstance(c, set) or len(c) != len(c2):
        return [("struct", T, c, c2)]
    out = []
    if k == "dict":
        for (k1, v1), (k2, v2) in zip(c.items(), c2.items()):
            out += diff_positions(k1, k2, a[0]) + diff_positions(v1, v2, a[1])
        return out
    if k == "tuple":
        if len(c) != len(a):
            return [("struct", T, c, c2)]
        for x, y, t in zip(c, c2, a):
            out += diff_positions(x, y, t)
        return out
    for x, y in zip(c, c2):
        out += diff_positions(x, y, a[0])
    return out


def union_parts(c, T):
    """every (union node, part of c aligned with it) reachable by reading c against T"""
    k = kind(T)
    if k in ("atom", "none"):
        return []
    a = targs(T)
    if k == "union":
        out = [(T, c)]
        for m in a:
            if conforms(c, m):
                out += union_parts(c, m)
        return out
    out = []
    if k == "dict" and isinstance(c, dict):
        for kk, vv in c.items():
            out += union_parts(kk, a[0]) + union_parts(vv, a[1])
    elif k == "tuple" and isinstance(c, tuple) and len(c) == len(a):
        for x, t in zip(c, a):
            out += union_parts(x, t)
    elif k in ("list", "vtuple", "set", "mio") and isinstance(c, (list, tuple, set)):
        for x in c:
            out += union_parts(x, a[0])
    return out


def first_member(v, U):
    """index of the first member of union U that v conforms to (None if none)"""
    for i, m in enumerate(targs(U)):
        if conforms(v, m, strict_float=True):
            return i
    return None


def contains_atom(T, atom):
    k = kind(T)
    if k == "atom":
        return T is atom
    if k == "none":
        return False
    return any(contains_atom(a, atom) for a in targs(T))


# ------------------------------------------------------------------------------------
# values
# ------------------------------------------------------------------------------------


class Env:
    """files the value generators may refer to (created by the check in a temp dir)"""

    def __init__(self, root):
        self.root = Path(root)
        self.f1 = self.root / "f1.txt"
        self.f2 = self.root / "f2.txt"
        self.missing = self.root / "missing.txt"
        for f in (self.f1, self.f2):
            if not f.exists():
                f.write_text(f.name)


def atom_values(T, env):
    File = _file_type()
    if T is int:
        return [0, 1, -3, 300, True]
    if T is float:
        return [0.0, 1.5, -2.0]
    if T is str:
        return ["", "a", "ab", "a b", str(env.f1)]
    if T is bool:
        return [True, False]
    if T is bytes:
        return [b"", b"ab"]
    if T is Path:
        return [Path("rel"), Path(env.f1), Path(env.missing)]
    if T is File:
        return [File(env.f1), File(env.f2)]
    raise ValueError(T)


def _hashable(v):
    try:
        hash(v)
        return True
    except TypeError:
        return False


def values_of(T, env, width=3):
    """a small list of fresh values conforming to T (lengths 0..3 for variadic containers,
    so that both matching and non-matching arities of fixed tuples occur)"""
    k = kind(T)
    if k == "none":
        return [None]
    if k == "atom":
        return atom_values(T, env)
    a = targs(T)
    if k == "union":
        out = []
        for m in a:
            out += values_of(m, env, width)
        return out
    if k in ("list", "vtuple", "set", "mio"):
        el = values_of(a[0], env, width)[: max(width, 1)]
        seqs = [[]] + [[e] for e in el]
        if len(el) >= 2:
            seqs.append([el[0], el[-1]])
            seqs.append([el[1], el[0]])
        if len(el) >= 3:
            seqs.append([el[2], el[0], el[1]])
        elif len(el) == 2:
            seqs.append([el[0], el[1], el[0]])
        if k == "list":
            return [list(s) for s in seqs]
        if k == "vtuple":
            return [tuple(s) for s in seqs]
        if k == "set":
            res, seen = [], []
            for s in seqs:
                st = set(s)
                if not any(same_value(st, o) for o in seen):
                    seen.append(st)
                    res.append(st)
            return res
        res = [list(s) for s in seqs]
        res.append(_mio()(seqs[1]))
        return res
    if k == "tuple":
        cols = [values_of(x, env, width)[: max(width, 1)] for x in a]
        n = max(len(c) for c in cols)
        return [tuple(c[i % len(c)] for c in cols) for i in range(n)]
    if k == "dict":
        ks = [x for x in values_of(a[0], env, width) if _hashable(x)][: max(width, 1)]
        vs = values_of(a[1], env, width)[: max(width, 1)]
        out = [{}]
        for i, kk in enumerate(ks):
            out.append({kk: vs[i % len(vs)]})
        if len(ks) >= 2:
            out.append({ks[0]: vs[0], ks[1]: vs[-1]})
        return out
    raise AssertionError(k)


def neighbours(T):
    """types one edit away from T: one atom swapped, or one unary constructor swapped"""
    A = atoms()
    k = kind(T)
    out = []
    if k == "atom":
        return [x for x in A if x is not T]
    if k == "none":
        return list(A)
    a = targs(T)
    if k in ("list", "vtuple", "set", "mio"):
        for kk in ("list", "vtuple", "set"):
            if kk != k:
                out.append((kk, [a[0]]))
        out.append(("tuple", [a[0], a[0]]))
    if k == "tuple":
        out.append(("list", [a[0]]))
        out.append(("tuple", list(reversed(a))))
    if k == "union":
        out += [("id", [m]) for m in a]
    for i, x in enumerate(a):
        for nx in neighbours(x):
            if isinstance(nx, tuple):
                continue
            out.append((k, a[:i] + [nx] + a[i + 1 :]))
    res = []
    for item in out:
        if isinstance(item, tuple):
            kk, args = item
            if kk == "id":
                res.append(args[0])
                continue
            try:
                t = build(kk, args)
            except TypeError:
                continue
            if well_formed(t):
                res.append(t)
        else:
            res.append(item)
    return res


def general_pool(env):
    """values of every atom, every depth-1 type, and some objects outside the grammar"""
    pool = [None]
    for t in grammar(1, ordered_unions=False):
        pool += values_of(t, env, 2)
    pool += [
        object(),
        1 + 2j,
        range(2),
        bytearray(b"ab"),
        frozenset({1}),
        frozenset({"ab"}),
        PurePath("pure"),
        [[1], [2]],
        [["ab"]],
        ["ab", ["cd"]],
        ("ab", ("cd",)),
        {"k": ["ab"]},
        {"k": "ab"},
        [None],
        (None, 1),
        [1, "a"],
        ("a", 1, 2.0),
        {1, "a"},
        {"a": 1, 2: "b"},
        [{"a": 1}],
        ({"ab"},),
        "abc",
        "0",
        "1.5",
        "True",
        2**70,
        float("inf"),
        [300, -1],
        [str(env.f1), str(env.f2)],
        [Path(env.f1)],
        (Path(env.f1), Path(env.f2)),
        [str(env.missing)],
    ]
    return dedupe(pool)


def vkey(v):
    """canonical key of a value (type-sensitive)"""
    if isinstance(v, (list, tuple)):
        return (type(v).__name__, tuple(vkey(x) for x in v))
    if isinstance(v, (set, frozenset)):
        return (type(v).__name__, tuple(sorted((vkey(x) for x in v), key=repr)))
    if isinstance(v, dict):
        return ("dict", tuple((vkey(k), vkey(x)) for k, x in v.items()))
    if type(v) is object:
        return ("object", "")
    return (type(v).__name__, repr(v))


def dedupe(vals):
    seen, out = set(), []
    for v in vals:
        k = vkey(v)
        if k not in seen:
            seen.add(k)
            out.append(v)
    return out


def values_outside(T, env, pool=None, width=2):
    """values not conforming to T: values of T's neighbour types (near misses: other element
    type, other container kind, other arity) plus the general pool, filtered by `conforms`"""
    cand = []
    for n in neighbours(T):
        cand += values_of(n, env, width)
    cand += pool if pool is not None else general_pool(env)
    return [v for v in dedupe(cand) if not conforms(v, T)]


# ------------------------------------------------------------------------------------
# C21: the "fixed-length tuple arity aside" exemption
# ------------------------------------------------------------------------------------


def arity_mismatch(v, T):
    """True if somewhere T declares a fixed-length tuple of n items and the part of v that
    lines up with it is a sized container of a different length (every way of lining up a
    union / a MultiInputObj is considered: the exemption is granted if any applies)"""
    k = kind(T)
    if k in ("atom", "none"):
        return False
    a = targs(T)
    if k == "union":
        return any(arity_mismatch(v, m) for m in a)
    if k == "dict":
        if isinstance(v, dict):
            return any(arity_mismatch(kk, a[0]) or arity_mismatch(vv, a[1]) for kk, vv in v.items())
        return False
    sized = isinstance(v, (list, tuple, set, frozenset)) and not isinstance(v, (str, bytes))
    if k == "tuple":
        if not sized:
            return False
        if len(v) != len(a):
            return True
        if isinstance(v, (list, tuple)):
            return any(arity_mismatch(e, t) for e, t in zip(v, a))
        return False
    # list / vtuple / set / mio
    res = sized and any(arity_mismatch(e, a[0]) for e in v)
    if k == "mio":
        res = res or arity_mismatch(v, a[0])
    return res


# ------------------------------------------------------------------------------------
# aligning a value with a declared type (used by class predicates of findings)
# ------------------------------------------------------------------------------------


def aligned_atoms(v, T):
    """every (atom type, part of v) pair obtained by reading v against T in every possible way:
    all union members, containers element-wise whatever the concrete container kind of v
    (a dict met by a sequence-like type is read as the sequence of its keys, which is what
    iterating a dict means in Python), MultiInputObj both as a list of X and as a single
    wrapped X"""
    k = kind(T)
    if k == "none":
        return [(NoneType, v)]
    if k == "atom":
        return [(T, v)]
    a = targs(T)
    out = []
    if k == "union":
        for m in a:
            out += aligned_atoms(v, m)
        return out
    if k == "dict":
        if isinstance(v, dict):
            for kk, vv in v.items():
                out += aligned_atoms(kk, a[0]) + aligned_atoms(vv, a[1])
        return out
    seq = isinstance(v, (list, tuple, set, frozenset, dict))
    if k == "tuple":
        if isinstance(v, (list, tuple)) and len(v) == len(a):
            for x, t in zip(v, a):
                out += aligned_atoms(x, t)
        elif seq:  # unordered or wrong arity: every element against every component
            for x in v:
                for t in a:
                    out += aligned_atoms(x, t)
        return out
    if seq:
        for x in v:
            out += aligned_atoms(x, a[0])
    if k == "mio":
        out += aligned_atoms(v, a[0])
    return out
