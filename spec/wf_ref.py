"""Nested-loop reference interpreter for small workflow graphs (property C03).

Written from the property text (/verif/properties.jsonl, C03) and the user docs
(docs/source/explanation/splitting-combining.rst, tutorial/6-workflow.ipynb) -- NOT from
pydra/engine/state.py.  Nothing from pydra is imported here.

Graph spec (plain JSON-able data)
---------------------------------
graph = {"inputs": {name: value}, "nodes": [node, ...]}           (nodes in definition order)
node  = {"name": str,
         "kind": "P1" | "P2" | "wf",
         "args": {field: ["in", input_name] | ["const", value] | ["node", upstream_name]},
                  fields in TASK FIELD ORDER: P1 -> a ; P2 -> a, b ; wf -> p, q
         "split": None | "a" | ["*", "a", "b"] (outer) | [".", "a", "b"] (inner),
                  split fields must be bound to ["in", ..] / ["const", ..] list values
         "combine": [] | [name, ...]   "a" = own split field, "U.a" = field a of the split of node U
         "sub": {"nodes": [...], "out": node_name}    (kind == "wf" only; its inputs are p, q)
        }

Task semantics (the harness defines the same python tasks):
    P1(a)    -> (name, a)
    P2(a, b) -> (name, a, b)
    wf(p, q) -> the rendered output `out` of the sub graph evaluated with inputs {p, q};
                inner nodes are tagged "<wfname>.<inner name>"

State semantics (property text)
-------------------------------
* every node has an ordered list of *axes*.  An axis is one originating split:
  (node that introduced it, the inner-linked group of its split fields).
* a node fed by split upstream nodes iterates over the merged upstream axes -- the axes
  remaining (after the upstream's combiner) of every upstream node, an axis that reaches
  the node through two inputs is taken ONCE (aligned, not multiplied) -- and then over
  its own splitter's axes (upstream loops outside, own loops inside; outer splitter =
  left-major product, inner splitter = positional zip of equal-length lists).
* each job receives from every upstream node the output whose coordinates on the
  upstream's remaining axes equal the job's coordinates.
* a combiner removes the axes that contain the named fields; what is left is one list
  per assignment of the remaining axes, members in enumeration order.
* a workflow output of a node: no axes and no combiner -> the value; otherwise the list
  over the remaining-axes enumeration (a fully combined node gives its single list).

Open points of the property text (every reading accepted by `readings`):
* the relative order of axes contributed by *different* upstream nodes (fan-in): the
  primary reading follows the task's field order (first input first = outermost, as in
  the documented A->C, B->C examples); `readings()` also yields every other permutation.
* NOT open (fixed by the text / docs): upstream loops are outside the node's own loops; an
  outer splitter enumerates left-major; a combined output is ONE flat list per assignment
  of the remaining axes; a workflow output over >= 2 remaining axes is one flat list.
"""

from __future__ import annotations

import itertools

FIELDS = {"P1": ["a"], "P2": ["a", "b"], "wf": ["p", "q"]}


class Rejected(Exception):
    """the construction is not meaningful under the property text (the checker expects an
    error from pydra or does not generate it)"""


def _own_axes(node, bound):
    """axes of the node's own splitter: list of (axis_id, length) and field->(axis_id) map"""
    sp = node.get("split")
    name = node["name"]
    if not sp:
        return [], {}
    if isinstance(sp, str):
        groups = [[sp]]
    elif sp[0] == "*":
        groups = [[f] for f in sp[1:]]
    elif sp[0] == ".":
        groups = [list(sp[1:])]
    else:
        raise Rejected(f"bad splitter {sp!r}")
    axes, fmap = [], {}
    for g in groups:
        lens = set()
        for f in g:
            v = bound[f]
            if not isinstance(v, list):
                raise Rejected(f"split field {f} is not bound to a list")
            lens.add(len(v))
        if len(lens) != 1:
            raise Rejected(f"inner split over lists of different lengths {sorted(lens)}")
        ax = (name, tuple(g))
        axes.append((ax, lens.pop()))
        for f in g:
            fmap[f] = ax
    return axes, fmap


def _axis_of(cname, node, axes):
    """the axis a combiner entry names: 'a' -> own field, 'U.a' -> field a of node U's split"""
    if "." in cname:
        nd, fld = cname.split(".", 1)
    else:
        nd, fld = node["name"], cname
    for ax, _n in axes:
        if ax[0] == nd and fld in ax[1]:
            return ax
    raise Rejected(f"combiner {cname!r} names no axis of node {node['name']} (axes {[a for a, _ in axes]})")


class NodeResult:
    __slots__ = ("axes", "values", "combined", "all_axes", "njobs")

    def __init__(self, axes, values, combined, all_axes, njobs):
        self.axes = axes  # remaining [(axis_id, len)]
        self.values = values  # {coord tuple over remaining axes: value (or list if combined)}
        self.combined = combined  # bool: a combiner was applied
        self.all_axes = all_axes  # [(axis_id, len)] before combining (job iteration space)
        self.njobs = njobs

    def render(self):
        if not self.axes:
            return self.values[()]
        return [self.values[c] for c in itertools.product(*[range(n) for _a, n in self.axes])]


def _merge_upstream(node, results, order):
    """merged upstream axes: every upstream's remaining axes, an axis seen twice is kept once"""
    ups = []
    for f in FIELDS[node["kind"]]:
        src = node["args"].get(f)
        if src and src[0] == "node" and src[1] not in ups:
            ups.append(src[1])
    ups = [ups[i] for i in order] if order is not None else ups
    axes = []
    for u in ups:
        for ax in results[u].axes:
            if ax not in axes:
                axes.append(ax)
    return axes, len(ups)


def eval_graph(graph, prefix="", orders=None):
    """nested-loop evaluation.  Returns {node name: NodeResult}.

    orders: optional {node name: permutation of its distinct upstream nodes} (open point)."""
    inputs = graph["inputs"]
    results = {}
    for node in graph["nodes"]:
        name = node["name"]
        kind = node["kind"]
        args = node["args"]
        # literal bindings
        bound = {}
        for f in FIELDS[kind]:
            src = args.get(f)
            if src is None:
                continue
            if src[0] == "in":
                bound[f] = inputs[src[1]]
            elif src[0] == "const":
                bound[f] = src[1]
        up_axes, _nups = _merge_upstream(node, results, (orders or {}).get(name))
        own_axes, fmap = _own_axes(node, bound)
        axes = up_axes + own_axes
        ids = [a for a, _n in axes]
        full = {}
        for coord in itertools.product(*[range(n) for _a, n in axes]):
            env = dict(zip(ids, coord))
            kw = {}
            for f in FIELDS[kind]:
                src = args.get(f)
                if src is None:
                    continue
                if src[0] == "node":
                    up = results[src[1]]
                    kw[f] = up.values[tuple(env[a] for a, _n in up.axes)]
                elif f in fmap:
                    kw[f] = bound[f][env[fmap[f]]]
                else:
                    kw[f] = bound[f]
            full[coord] = _run(node, kw, prefix)
        comb = node.get("combine") or []
        removed = []
        for c in comb:
            ax = _axis_of(c, node, axes)
            if ax not in removed:
                removed.append(ax)
        remaining = [(a, n) for a, n in axes if a not in removed]
        if comb:
            keep = [i for i, (a, _n) in enumerate(axes) if a not in removed]
            values = {c: [] for c in itertools.product(*[range(n) for _a, n in remaining])}
            for coord in itertools.product(*[range(n) for _a, n in axes]):
                values[tuple(coord[i] for i in keep)].append(full[coord])
        else:
            values = full
        results[name] = NodeResult(remaining, values, bool(comb), axes, len(full))
    return results


def _run(node, kw, prefix):
    kind = node["kind"]
    tag = prefix + node["name"]
    if kind == "P1":
        return (tag, kw["a"])
    if kind == "P2":
        return (tag, kw["a"], kw["b"])
    if kind == "wf":
        sub = node["sub"]
        g = {"inputs": {k: kw[k] for k in kw}, "nodes": sub["nodes"]}
        res = eval_graph(g, prefix=tag + ".")
        return res[sub["out"]].render()
    raise Rejected(f"unknown kind {kind}")


def loop_eval(graph, orders=None):
    """{node name: expected workflow output for that node's `out`} (primary reading)"""
    return {n: r.render() for n, r in eval_graph(graph, orders=orders).items()}


def readings(graph, limit=64):
    """every reading of the open points: yields {node: output}.  First = primary."""
    yield loop_eval(graph)
    # nodes with >= 2 distinct split upstream nodes: permutations of their order
    res = eval_graph(graph)
    choices = {}
    for node in graph["nodes"]:
        ups = []
        for f in FIELDS[node["kind"]]:
            src = node["args"].get(f)
            if src and src[0] == "node" and src[1] not in ups:
                ups.append(src[1])
        if len([u for u in ups if res[u].axes]) >= 2:
            choices[node["name"]] = list(itertools.permutations(range(len(ups))))
    if not choices:
        return
    names = sorted(choices)
    n = 0
    for combo in itertools.product(*[choices[k] for k in names]):
        if all(c == tuple(range(len(c))) for c in combo):
            continue
        n += 1
        if n > limit:
            return
        yield loop_eval(graph, orders=dict(zip(names, combo)))


def nontrivial(graph):
    """at least one split upstream node feeding a downstream node"""
    res = eval_graph(graph)
    for node in graph["nodes"]:
        for src in node["args"].values():
            if src[0] == "node" and res[src[1]].all_axes:
                return True
    return False


def to_jsonable(v):
    """tuples -> lists, recursively (structural comparison form)"""
    if isinstance(v, (list, tuple)):
        return [to_jsonable(i) for i in v]
    if isinstance(v, dict):
        return {k: to_jsonable(i) for k, i in v.items()}
    return v
