#!/usr/bin/env python3
import json, sys, xml.etree.ElementTree as ET
b = json.load(open('/root/.vp/BASELINE.json'))
stable = set(b['stable_pass'])
passed, failed = set(), set()
for tc in ET.parse(sys.argv[1]).getroot().iter('testcase'):
    name = f"{tc.get('classname')}::{tc.get('name')}"
    if any(ch.tag in ('failure', 'error') for ch in tc):
        failed.add(name)
    elif not any(ch.tag == 'skipped' for ch in tc):
        passed.add(name)
missing = sorted(stable - passed)
print(f"stable_pass={len(stable)} passed_now={len(passed)} failed_now={len(failed)} missing_from_stable={len(missing)}")
for m in missing[:60]:
    print("  MISSING", m, "(FAILED)" if m in failed else "(not run/skipped)")
