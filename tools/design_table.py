#!/usr/bin/env python3
"""Regenerates the status tables of DESIGN.md (between the AUTOGEN markers) from
evidence/*.json, tools/claims.json, known_findings.jsonl and seeded/*/meta.json."""
import json, re
from pathlib import Path

V = Path(__file__).resolve().parent.parent
props = [json.loads(l) for l in (V / "properties.jsonl").read_text().splitlines() if l.strip()]
claims = json.loads((V / "tools/claims.json").read_text())
na = json.loads((V / "tools/not_applicable.json").read_text())
known = [json.loads(l) for l in (V / "known_findings.jsonl").read_text().splitlines() if l.strip()]

rows = ["| id | claimed level | functions under deductive contract | D obligations (discharged/total) | B cases (distinct non-trivial) | known findings | fixed |", "|---|---|---|---|---|---|---|"]
for p in props:
    pid = p["id"]
    if pid not in claims:
        rows.append(f"| {pid} | not claimed | — | — | — | — | {na.get(pid, 'not built')[:60]} |")
        continue
    evp = V / "evidence" / f"{pid}.json"
    ev = json.loads(evp.read_text()) if evp.exists() else None
    kn = [k for k in known if k["property"] == pid and k["status"] == "known"]
    fx = [k for k in known if k["property"] == pid and k["status"] == "fixed"]
    if ev:
        c = ev["coverage"]
        fns = ", ".join(f["function"].split(":")[1] for f in c.get("functions_under_contract", [])) or "—"
        d = f"{c.get('discharged', 0)}/{c.get('obligations', 0)}"
        b = sum(x["distinct_nontrivial"] for x in c.get("bounded_domains", []))
        be = sum(x["evaluations"] for x in c.get("bounded_domains", []))
        rows.append(f"| {pid} | {ev['level']} | {fns} | {d} | {be} ({b}) | {len(kn)} | {', '.join(k['commit'] for k in fx) or '—'} |")
    else:
        rows.append(f"| {pid} | {claims[pid]['category']} | (no evidence yet) | | | {len(kn)} | |")
status = "\n".join(rows)

seeds = []
for m in sorted((V / "seeded").glob("*/meta.json")):
    d = json.loads(m.read_text())
    r = d.get("check_result", {})
    seeds.append(f"| {m.parent.name} | {d['breaks_property']} | {d['needs_to_manifest'][:160]} | {'DETECTED' if r.get('exit') == 1 else 'MISSED'} ({r.get('violation_lines', 0)} VIOLATION lines) | {d.get('detected_by', '')[:200]} |")
seedtab = "| seed | property | needs to manifest | result of the check on the changed tree | caught by |\n|---|---|---|---|---|\n" + "\n".join(seeds)

kf = ["| property | class | what fails |", "|---|---|---|"]
for k in known:
    if k["status"] == "known":
        kf.append(f"| {k['property']} | `{k['class']}` | {k['what'][:220]} |")
fx = ["| property | commit | what failed |", "|---|---|---|"]
for k in known:
    if k["status"] == "fixed":
        fx.append(f"| {k['property']} | {k['commit']} | {k['what'][:260]} |")

txt = (V / "DESIGN.md").read_text()
for name, body in (("STATUS", status), ("SEEDS", seedtab), ("KNOWN", "\n".join(kf)), ("FIXED", "\n".join(fx))):
    pat = re.compile(rf"(<!-- AUTOGEN:{name} -->).*?(<!-- /AUTOGEN:{name} -->)", re.S)
    if pat.search(txt):
        txt = pat.sub(lambda m: m.group(1) + "\n" + body + "\n" + m.group(2), txt)
(V / "DESIGN.md").write_text(txt)
print("tables regenerated")
