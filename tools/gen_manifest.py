#!/usr/bin/env python3
"""Regenerates MANIFEST.json from tools/claims.json (one entry per claimed property)
and tools/not_applicable.json.  Every property of properties.jsonl must be in exactly one."""
import json
from pathlib import Path

V = Path(__file__).resolve().parent.parent
props = [json.loads(l)["id"] for l in (V / "properties.jsonl").read_text().splitlines() if l.strip()]
claims = json.loads((V / "tools/claims.json").read_text())
na = json.loads((V / "tools/not_applicable.json").read_text())
checks = []
for pid in props:
    if pid in claims:
        c = claims[pid]
        checks.append(
            {
                "property_id": pid,
                "quick_cmd": f"./check {pid} --tier quick",
                "thorough_cmd": f"./check {pid} --tier thorough",
                "evidence_file": f"evidence/{pid}.json",
                "replay_cmd_template": f"./check {pid} --replay {{path}}",
                "engine": c.get("engine", "pyvc+bounded"),
                "level_claimed": {"category": c["category"], "text": c["text"], "design_ref": f"DESIGN.md §6 {pid}"},
                "level_note": c["note"],
                "technique": c["technique"],
            }
        )
nas = [{"property_id": p, "reason": na.get(p, "check not built yet (build in progress)")} for p in props if p not in claims]
assert not (set(claims) & set(na)), "claimed and not_applicable overlap"
m = {
    "version": 1,
    "setup_cmd": "./setup.sh",
    "hooks": {
        "guard": "NIPYPE_PYDRA_VERIF",
        "enable": "none needed: contracts are sidecar files under /verif/props and /verif/spec; the real functions are re-read from /repo's working tree on every run; bounded runs wrap functions from outside, inside the harness process only",
        "baseline_off_cmd": "cd /repo && /venv/bin/python -m pytest -ra -q -p no:cacheprovider --timeout=900 --continue-on-collection-errors",
        "source_commits": [],
        "add_only": True,
    },
    "engines": [
        {"name": "pyvc", "path": "pyvc/", "kind_free_text": "engine D: ast -> VC generator (forward symbolic execution of the real function, loop invariants, effect traces), discharged by z3 5.1 then cvc5 1.0.3", "serves_properties": sorted(p for p, c in claims.items() if "pyvc" in c.get("engine", "pyvc+bounded"))},
        {"name": "bounded", "path": "vf/ props/", "kind_free_text": "engine B: the same contracts executed on the real functions over stated finite domains (small-scope exhaustive); labelled bounded, never counted as proved", "serves_properties": sorted(claims)},
    ],
    "checks": checks,
    "not_applicable": nas,
    "notes": "exit 0 held | 1 VIOLATION | 2 UNDECIDED (solver unknown / construct outside the verified subset) | 3 CHECKER-ERROR.  Known findings: known_findings.jsonl.",
}
(V / "MANIFEST.json").write_text(json.dumps(m, indent=1))
print(f"{len(checks)} checks, {len(nas)} not claimed")
