#!/bin/bash
# keep_seed.sh <Cxx> <n>: confirm the seeded change (demo passes on /repo, fails on the worktree), run the check
# against the changed tree, and store it under /verif/seeded/<Cxx>-<n>/
id=$1; n=${2:-1}; wt=/tmp/mut_$id; out=/tmp/mut_${id}_out; dst=/verif/seeded/$id-$n
mkdir -p $dst
cp $out/patch.diff $dst/patch.diff; cp $out/demo.py $dst/demo.py; cp $out/notes.md $dst/notes.md 2>/dev/null
(cd /tmp && NO_ET=1 PYTHONPATH=/repo timeout 600 /venv/bin/python $dst/demo.py > $dst/demo_unchanged.log 2>&1); a=$?
(cd /tmp && NO_ET=1 PYTHONPATH=$wt timeout 600 /venv/bin/python $dst/demo.py > $dst/demo_changed.log 2>&1); b=$?
git -C /repo apply --check $dst/patch.diff; c=$?
(cd /verif && PYDRA_VERIF_REPO=$wt timeout 3000 ./check $id > $dst/check_changed.log 2>&1); d=$?
echo "demo unchanged exit=$a changed exit=$b patch-applies-to-repo=$c check-on-changed exit=$d"
grep -c "^VIOLATION" $dst/check_changed.log
