#!/bin/bash
# keep_seed.sh <Cxx> <n>: take the seeded change from /tmp/mut_<Cxx>_out (or an existing seeded/<Cxx>-<n>/),
# apply it to a FRESH worktree of /repo's current HEAD, confirm the demo (passes on /repo, fails on the
# changed tree), run the touched-module check against the changed tree, store everything under seeded/.
id=$1; n=${2:-1}; out=/tmp/mut_${id}${4}_out; dst=/verif/seeded/$id-$n; wt=/tmp/seedwt_$id
mkdir -p $dst
if [ -f $out/patch.diff ]; then cp $out/patch.diff $dst/patch.diff; cp $out/demo.py $dst/demo.py; cp $out/notes.md $dst/notes.md 2>/dev/null; fi
git -C /repo worktree remove --force $wt 2>/dev/null
git -C /repo worktree add -q $wt HEAD && cp /repo/pydra/utils/_version.py $wt/pydra/utils/
if ! git -C $wt apply $dst/patch.diff; then echo "PATCH DOES NOT APPLY to current HEAD"; git -C /repo worktree remove --force $wt; exit 2; fi
(cd /tmp && NO_ET=1 PYTHONPATH=/repo timeout 900 /venv/bin/python $dst/demo.py > $dst/demo_unchanged.log 2>&1); a=$?
(cd /tmp && NO_ET=1 PYTHONPATH=$wt timeout 900 /venv/bin/python $dst/demo.py > $dst/demo_changed.log 2>&1); b=$?
(cd /verif && PYDRA_VERIF_REPO=$wt timeout 3000 ./check $id > $dst/check_changed.log 2>&1); d=$?
git -C /repo rev-parse --short HEAD > $dst/applied_to_repo_head.txt
echo "demo unchanged exit=$a changed exit=$b check-on-changed exit=$d violations=$(grep -c '^VIOLATION' $dst/check_changed.log)"
if [ "$3" != "keepwt" ]; then git -C /repo worktree remove --force $wt; fi
