#!/usr/bin/env python3
"""merge_known.py Cxx [candidate.jsonl ...]: runs ./check Cxx with the candidate known-finding
files and appends to known_findings.jsonl only the candidate classes that are actually hit on
the current tree (development tool, not used by any check)."""
import json, os, subprocess, sys
from pathlib import Path

V = Path(__file__).resolve().parent.parent
pid = sys.argv[1]
cands = sys.argv[2:] or [str(V / ".scratch" / f"known_{pid}.jsonl")]
env = dict(os.environ, VF_EXTRA_KNOWN=":".join(cands))
r = subprocess.run([str(V / "check"), pid], env=env, capture_output=True, text=True)
print(r.stdout[-1500:])
ev = json.load(open(V / "evidence" / f"{pid}.json"))
hit = set(ev["coverage"].get("known_findings_printed", {}))
have = {(json.loads(l)["property"], json.loads(l)["class"]) for l in (V / "known_findings.jsonl").read_text().splitlines() if l.strip()}
added = 0
with open(V / "known_findings.jsonl", "a") as out:
    for c in cands:
        for l in Path(c).read_text().splitlines():
            if not l.strip():
                continue
            d = json.loads(l)
            if d["property"] == pid and d["class"] in hit and (pid, d["class"]) not in have:
                out.write(json.dumps(d) + "\n")
                have.add((pid, d["class"]))
                added += 1
print(f"exit={r.returncode} hit={len(hit)} added={added}")
