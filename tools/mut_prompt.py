#!/usr/bin/env python3
"""prints the prompt for a fresh mutation agent for property <id> (property text only)"""
import json, sys
pid = sys.argv[1]
p = [json.loads(l) for l in open('/verif/properties.jsonl') if l.strip()]
p = [x for x in p if x['id'] == pid][0]
print(f"""You are testing how robust a semantic property of the Python project nipype/pydra (a dataflow engine) is against realistic code changes. You have your own scratch git worktree of the project at /tmp/mut_{pid} (work ONLY there; never touch /repo or /verif, and do not read anything under /verif). Use the interpreter /venv/bin/python with PYTHONPATH=/tmp/mut_{pid} (verify first that `PYTHONPATH=/tmp/mut_{pid} /venv/bin/python -c "import pydra.engine.job as j; print(j.__file__)"` prints a path under /tmp/mut_{pid}; /venv also contains a stale installed copy of pydra that you must not test by accident). Set NO_ET=1 in the environment to avoid a network check. There is no network.

THE PROPERTY ({pid}: {p['title']}):
{p['statement']}
It is quantified over: {p['quantifier']['text']}
Code it is anchored in: {', '.join(p['anchors']['files'])}

YOUR TASK: produce ONE change to pydra's source (files under pydra/, not the tests) that BREAKS this property while the project still imports/compiles and the existing test suite still passes, plus a demonstration. The change must look like a plausible refactoring/optimisation/bug a developer could introduce, and it must need something SPECIFIC to manifest — a particular interleaving, a crash or fault at a particular point, a multi-step sequence of operations, an unusual input, or two cooperating sites that each look fine alone — NOT something ordinary use would expose at once (if the basic happy-path tests would catch it, it is too blunt).

Steps:
1. Read the anchored code in your worktree and find a subtle way to break the property.
2. Make the change in the worktree (keep it small, 1-30 lines).
3. Run the relevant existing tests to make sure they still pass, e.g. `cd /tmp/mut_{pid} && NO_ET=1 PYTHONPATH=/tmp/mut_{pid} /venv/bin/python -m pytest -q -p no:cacheprovider -x <the test files that cover the code you touched>` (the whole suite takes ~20 min; run at least every test file that exercises the touched module — find them with grep; 17 tests fail even on the unchanged tree because of the missing network: test_audit.py::*prov*/all, test_typing.py::test_typing_cast*/implicit_cast*, test_hash.py::test_hash_file, test_result.py::test_copyfile_workflow_conflicting_filenames, test_shell_fields.py::test_interface_template_*; ignore those). If a test fails because of your change, pick a different/subtler change.
4. Write a demonstration program /tmp/mut_{pid}_out/demo.py that uses only pydra's public behaviour: run with `PYTHONPATH=<tree> /venv/bin/python demo.py` it must exit 0 (print PASS) on the UNCHANGED tree and exit 1 (print FAIL and what was observed) on your changed tree. Test both: the unchanged tree is /repo, READ-ONLY, via PYTHONPATH=/repo (do NOT use `git stash`: the stash is shared between all worktrees of the repository and other agents use it too).
5. Save `git -C /tmp/mut_{pid} diff > /tmp/mut_{pid}_out/patch.diff` and write /tmp/mut_{pid}_out/notes.md: what the change is, why it breaks the property, what specific condition it needs to manifest, which tests you ran (with pass counts).
Leave the worktree with the change applied. Clean up any temp dirs you created elsewhere. Final message: a 5-line summary (file changed, idea, what it needs to manifest, tests run, demo result on both trees).""")
