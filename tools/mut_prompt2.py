#!/usr/bin/env python3
"""second-round prompt: same as mut_prompt.py but the worktree/out dirs carry the suffix b and the idea of the first seed is excluded"""
import json, subprocess, sys
pid = sys.argv[1]
base = subprocess.run([sys.executable, '/verif/tools/mut_prompt.py', pid], capture_output=True, text=True).stdout
base = base.replace(f'/tmp/mut_{pid}_out', f'/tmp/mut_{pid}b_out').replace(f'/tmp/mut_{pid}', f'/tmp/mut_{pid}b')
m = json.load(open(f'/verif/seeded/{pid}-1/meta.json'))
base += f"\n\nALREADY EXPLORED (do not repeat this idea or a close variant; pick a different function / mechanism): {m['needs_to_manifest'][:400]}\n"
print(base)
