#!/bin/bash
# rerun_seeds.sh [ids...]: re-applies every stored seed to a fresh worktree of /repo's HEAD and runs the property's
# current quick check against it; one line per seed (regression of the checks against the whole seed collection)
cd /verif
ids="$@"; [ -z "$ids" ] && ids=$(ls seeded | sort)
for s in $ids; do
  pid=${s%%-*}; wt=/tmp/seedrr_$s
  git -C /repo worktree remove --force $wt 2>/dev/null
  git -C /repo worktree add -q $wt HEAD && cp /repo/pydra/utils/_version.py $wt/pydra/utils/
  if ! git -C $wt apply /verif/seeded/$s/patch.diff 2>/dev/null; then echo "$s PATCH-DOES-NOT-APPLY"; git -C /repo worktree remove --force $wt; continue; fi
  out=$(PYDRA_VERIF_REPO=$wt timeout 3000 ./check $pid 2>&1); rc=$?
  echo "$s rc=$rc violations=$(echo "$out" | grep -c '^VIOLATION') :: $(echo "$out" | grep -m1 'what:' | cut -c1-140)"
  git -C /repo worktree remove --force $wt
done
