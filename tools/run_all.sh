#!/bin/bash
# run_all.sh <tier> [ids...]: runs every claimed check in the given tier, prints one line per check
tier=${1:-quick}; shift
ids="$@"
[ -z "$ids" ] && ids=$(python3 -c "import json;print(' '.join(c['property_id'] for c in json.load(open('MANIFEST.json'))['checks']))")
[ -x .venv/bin/python ] || ./setup.sh >/dev/null 2>&1
for p in $ids; do
  s=$(date +%s)
  out=$(./check $p --tier $tier 2>&1); rc=$?
  e=$(( $(date +%s) - s ))
  echo "$p rc=$rc ${e}s viol=$(echo "$out" | grep -c '^VIOLATION') known=$(echo "$out" | grep -c '^KNOWN-FINDING') :: $(echo "$out" | tail -1 | cut -c1-150)"
  if [ $rc -ne 0 ]; then echo "$out" | grep -A1 "^VIOLATION\|^UNDECIDED\|CHECKER-ERROR" | head -12 | cut -c1-300; fi
done
