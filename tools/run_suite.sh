#!/bin/bash
# runs the pinned suite on /repo (guard off) and compares with BASELINE.json stable_pass
OUT=${1:-/tmp/suite.junit.xml}
cd /repo && /venv/bin/python -m pytest -ra -q -p no:cacheprovider --timeout=900 --continue-on-collection-errors --junitxml=$OUT > ${OUT%.xml}.log 2>&1
/venv/bin/python - "$OUT" <<'PY'
import json, sys, xml.etree.ElementTree as ET
b = json.load(open('/root/.vp/BASELINE.json'))
stable = set(b['stable_pass'])
passed = set()
for tc in ET.parse(sys.argv[1]).getroot().iter('testcase'):
    name = f"{tc.get('classname')}::{tc.get('name')}"
    if not any(ch.tag in ('failure', 'error', 'skipped') for ch in tc):
        passed.add(name)
missing = sorted(stable - passed)
print(f"stable_pass={len(stable)} passed_now={len(passed)} missing_from_stable={len(missing)}")
for m in missing[:40]:
    print("  MISSING", m)
PY
