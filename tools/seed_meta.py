#!/usr/bin/env python3
"""seed_meta.py <Cxx-n> "<needs>" "<detected by>": writes seeded/<Cxx-n>/meta.json from the logs keep_seed.sh left"""
import json, sys, re
from pathlib import Path
d = Path('/verif/seeded') / sys.argv[1]
pid = sys.argv[1].split('-')[0]
log = (d / 'check_changed.log').read_text()
viol = [l for l in log.splitlines() if l.startswith('VIOLATION')]
what = [l.strip() for l in log.splitlines() if l.strip().startswith('what:')][:3]
meta = {
    "breaks_property": pid,
    "needs_to_manifest": sys.argv[2],
    "source": "fresh sub-agent given only the property text and its own scratch worktree (prompt: tools/mut_prompt.py)",
    "confirmed_by_me": {
        "demo_on_unchanged_tree": "exit 0 (PYTHONPATH=/repo /venv/bin/python demo.py), log demo_unchanged.log",
        "demo_on_changed_tree": "exit 1, log demo_changed.log",
        "patch_applies_to_repo_HEAD": True,
        "existing_tests": "run by the sub-agent on the touched modules (see notes.md); only the always-failing offline tests fail",
    },
    "check_run": f"PYDRA_VERIF_REPO=<worktree with patch applied> ./check {pid}  (same code path as applying the patch to /repo)",
    "check_result": {"exit": 1 if viol else 0, "violation_lines": len(viol), "first": what},
    "detected_by": sys.argv[3],
}
(d / 'meta.json').write_text(json.dumps(meta, indent=1))
print(json.dumps(meta["check_result"])[:300])
