"""./check <Cxx> [--tier quick|thorough] [--replay file]"""
import argparse
import importlib
import json
import os
import sys
import traceback

from vf.core import Ctx, CheckerError, assert_repo_import


def main():
    ap = argparse.ArgumentParser()
    ap.add_argument("pid")
    ap.add_argument("--tier", default=os.environ.get("VERIF_TIER", "quick"), choices=["quick", "thorough"])
    ap.add_argument("--replay", default=None)
    a = ap.parse_args()
    seed = int(os.environ.get("VERIF_SEED", "0") or 0)
    try:
        assert_repo_import()
        mod = importlib.import_module(f"props.{a.pid}")
        if a.replay:
            rec = json.load(open(a.replay))
            rec.setdefault("_path", a.replay)
            if rec.get("obligation") and not rec.get("failing_input_found") and hasattr(mod, "deductive"):
                # a refuted obligation for which the solver gave no input that replays natively (no-failing-input-found):
                # the replay file names the obligation and carries the solver's output; replaying = re-verifying that
                # obligation from the CURRENT source of /repo
                name = rec["obligation"].rsplit(".", 1)[0]
                print(f"replay {a.pid}: obligation {rec['obligation']} has no native failing input; solver output recorded in the file:")
                print("  " + str(rec.get("solver_output"))[:600].replace("\n", "\n  "))
                c = Ctx(a.pid, a.tier, seed)
                mod.deductive(c)
                hits = [v for v in c.violations if str(v.get("obligation") or "").rsplit(".", 1)[0] == name]
                print(f"replay {a.pid}: re-verified on the current tree: obligation {name} " + ("is refuted again" if hits else "is discharged"))
                if hits:
                    print(f"VIOLATION property={a.pid} replay={a.replay} no-failing-input-found")
                    sys.exit(1)
                sys.exit(0)
            rc = mod.replay(rec)
            sys.exit(rc)
        ctx = Ctx(a.pid, a.tier, seed)
        mod.run(ctx)
        sys.exit(ctx.finish())
    except CheckerError as e:
        print(f"CHECKER-ERROR property={a.pid} {e}")
        sys.exit(3)
    except SystemExit:
        raise
    except BaseException:
        traceback.print_exc()
        print(f"CHECKER-ERROR property={a.pid} harness crashed (traceback above)")
        sys.exit(3)


if __name__ == "__main__":
    main()
