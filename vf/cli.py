"""./check <Cxx> [--tier quick|thorough] [--replay file]"""
import argparse
import importlib
import json
import os
import sys
import traceback

from vf.core import Ctx, CheckerError, assert_repo_import


def main():
    ap = argparse.ArgumentParser()
    ap.add_argument("pid")
    ap.add_argument("--tier", default=os.environ.get("VERIF_TIER", "quick"), choices=["quick", "thorough"])
    ap.add_argument("--replay", default=None)
    a = ap.parse_args()
    seed = int(os.environ.get("VERIF_SEED", "0") or 0)
    try:
        assert_repo_import()
        mod = importlib.import_module(f"props.{a.pid}")
        if a.replay:
            rec = json.load(open(a.replay))
            rc = mod.replay(rec)
            sys.exit(rc)
        ctx = Ctx(a.pid, a.tier, seed)
        mod.run(ctx)
        sys.exit(ctx.finish())
    except CheckerError as e:
        print(f"CHECKER-ERROR property={a.pid} {e}")
        sys.exit(3)
    except SystemExit:
        raise
    except BaseException:
        traceback.print_exc()
        print(f"CHECKER-ERROR property={a.pid} harness crashed (traceback above)")
        sys.exit(3)


if __name__ == "__main__":
    main()
