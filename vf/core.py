"""Run context shared by every property check: obligations (engine D), bounded
domains (engine B), known-finding matching, replay files, evidence, exit codes.

exit 0 held | 1 VIOLATION | 2 UNDECIDED | 3 CHECKER-ERROR
"""

from __future__ import annotations

import hashlib
import json
import os
import sys
import time
import traceback
from pathlib import Path

VERIF = Path(__file__).resolve().parent.parent
REPO = Path(os.environ.get("PYDRA_VERIF_REPO", "/repo")).resolve()

PY_ASSUMPTIONS = [
    "engine D: Python integers are mathematical integers (true in CPython); no floating point is modelled",
    "engine D: left-to-right evaluation, short-circuit and/or, truthiness by kind",
    "engine D: attribute reads and @property getters named `pure` in a contract are deterministic and side-effect free",
    "engine D: no aliasing between distinct symbolic objects other than what a contract states; no monkey-patching or __getattr__ magic on modelled attributes",
    "engine D: every call not covered by a contract or a builtin axiom is an opaque effect that returns an arbitrary value or raises an arbitrary Exception (contracts with base_exceptions=True, i.e. Job.run/run_async, additionally let every such call raise a KeyboardInterrupt-like BaseException)",
    "engine D: recursion depth, memory and wall-clock are unbounded; termination only where a `decreases` obligation is listed",
]


class CheckerError(Exception):
    """the machinery itself is broken (exit 3) — never a property verdict"""


def json_safe(x, depth=0):
    if depth > 8:
        return repr(x)[:200]
    if isinstance(x, (str, int, bool)) or x is None:
        return x
    if isinstance(x, float):
        return x if x == x and abs(x) != float("inf") else repr(x)
    if isinstance(x, (list, tuple)):
        return [json_safe(i, depth + 1) for i in x]
    if isinstance(x, (set, frozenset)):
        return {"__set__": sorted((json_safe(i, depth + 1) for i in x), key=repr)}
    if isinstance(x, dict):
        return {str(k): json_safe(v, depth + 1) for k, v in x.items()}
    return repr(x)[:300]


class Domain:
    """one bounded (engine B) domain: an enumerated input space with a stated bound"""

    def __init__(self, ctx, name, bound, rule, exhaustive):
        self.ctx, self.name, self.bound, self.rule = ctx, name, bound, rule
        self.exhaustive = exhaustive
        self.evaluations = 0
        self.keys = set()
        self.samples = []
        self.failed = 0

    def case(self, key, nontrivial=True, sample=None):
        self.evaluations += 1
        if nontrivial:
            h = hashlib.blake2b(repr(key).encode(), digest_size=8).digest()
            self.keys.add(h)
        if sample is not None and len(self.samples) < 3:
            self.samples.append(json_safe(sample))

    def summary(self):
        return {
            "engine": "B (bounded; NOT counted as proved)",
            "domain": self.name,
            "bound": self.bound,
            "rule": self.rule,
            "evaluations": self.evaluations,
            "distinct_nontrivial": len(self.keys),
            "exhaustive": bool(self.exhaustive),
            "failed_cases": self.failed,
            "samples": self.samples,
        }


class Ctx:
    def __init__(self, pid, tier="quick", seed=0):
        self.pid, self.tier, self.seed = pid, tier, seed
        self.t0 = time.time()
        self.obligations = []  # engine D
        self.functions = []  # functions under contract
        self.domains = []  # engine B
        self.trusted_base = []
        self.assumptions = list(PY_ASSUMPTIONS)
        self.dropped = []
        self.violations = []
        self.undecided = []
        self.known_hit = {}
        self.notes = []
        self.level = "other"
        self.explanation = ""
        self.solver_time = 0.0
        self._replay_n = 0
        files = [VERIF / "known_findings.jsonl"]
        # development aid only (never set by MANIFEST commands): extra known-finding files
        files += [Path(p) for p in os.environ.get("VF_EXTRA_KNOWN", "").split(":") if p]
        self.known = []
        for f in files:
            if f.exists():
                self.known += [json.loads(l) for l in f.read_text().splitlines() if l.strip() and not l.startswith("#")]

    # ----- tier helpers
    @property
    def thorough(self):
        return self.tier == "thorough"

    def pick(self, quick, thorough):
        return thorough if self.thorough else quick

    # ----- engine B
    def domain(self, name, bound, rule, exhaustive=False):
        d = Domain(self, name, bound, rule, exhaustive)
        self.domains.append(d)
        return d

    # ----- engine D bookkeeping (filled by pyvc.verify)
    def add_function(self, info):
        if info not in self.functions:
            self.functions.append(info)

    def add_obligation(self, ob):
        self.obligations.append(ob)
        self.solver_time += ob.get("time_s", 0.0)

    def trust(self, *items):
        for i in items:
            if i not in self.trusted_base:
                self.trusted_base.append(i)

    def assume(self, *items):
        for i in items:
            if i not in self.assumptions:
                self.assumptions.append(i)

    def note(self, s):
        self.notes.append(s)

    # ----- verdicts
    def is_known(self, klass):
        for k in self.known:
            if k.get("property") == self.pid and k.get("status") == "known" and k.get("class") == klass:
                return k
        return None

    def fail(self, klass, what, case, obligation=None, solver_output=None, found_input=True, domain=None):
        """a property-level failure.  klass = finding class computed by the property's
        class predicate (None = unclassified).  Known classes print KNOWN-FINDING once;
        anything else is a VIOLATION with a replay file."""
        if domain is not None:
            domain.failed += 1
        k = self.is_known(klass) if klass else None
        if k is not None:
            ent = self.known_hit.setdefault(klass, {"count": 0, "what": k.get("what", what), "first": json_safe(case)})
            ent["count"] += 1
            return "known"
        self._replay_n += 1
        rdir = VERIF / "replay"
        rdir.mkdir(exist_ok=True)
        rp = rdir / f"{self.pid}-{self._replay_n}.json"
        rec = {
            "property": self.pid,
            "class": klass,
            "what": what,
            "case": json_safe(case),
            "obligation": obligation,
            "solver_output": solver_output,
            "failing_input_found": bool(found_input),
            "repo": str(REPO),
        }
        if len(self.violations) < 25:
            rp.write_text(json.dumps(rec, indent=1))
            tail = "" if found_input else " no-failing-input-found"
            print(f"VIOLATION property={self.pid} replay={rp}{tail}", flush=True)
            print(f"  what: {what}"[:600], flush=True)
        self.violations.append(rec)
        return "violation"

    def undecide(self, oid, why):
        self.undecided.append({"obligation": oid, "why": why})

    # ----- finish
    def finish(self):
        for klass, ent in self.known_hit.items():
            print(f"KNOWN-FINDING: property={self.pid} class={klass} ({ent['count']} case(s)) {ent['what']}", flush=True)
        d_total = len(self.obligations)
        d_ok = sum(1 for o in self.obligations if o["status"] == "discharged")
        evals = sum(d.evaluations for d in self.domains)
        distinct = sum(len(d.keys) for d in self.domains)
        samples = []
        for o in self.obligations[:3]:
            samples.append({"obligation": o["id"], "goal": o.get("goal", "")[:300], "status": o["status"], "backend": o.get("backend")})
        for d in self.domains:
            samples.extend(d.samples[:2])
        if not samples:
            samples = ["(no cases)"]
        by_backend = {}
        for o in self.obligations:
            by_backend[o.get("backend", "?")] = by_backend.get(o.get("backend", "?"), 0) + 1
        level = self.level
        if level == "proof" and (d_ok != d_total or d_total == 0):
            level = "other"
            self.explanation += " [level downgraded from proof: not every obligation is discharged on this tree (known findings or undecided obligations); see obligation_list]"
        cov = {
            "explanation": self.explanation,
            "obligations": d_total,
            "discharged": d_ok,
            "obligations_by_backend": by_backend,
            "solver_time_s": round(self.solver_time, 3),
            "checker_cmd": f"./check {self.pid} --tier {self.tier}",
            "trusted_base": self.trusted_base,
            "functions_under_contract": self.functions,
            "extraction_drops": sorted(set(self.dropped)),
            "obligation_list": [
                {k: o.get(k) for k in ("id", "role", "status", "backend", "time_s", "goal")} for o in self.obligations
            ][:400],
            "bounded_domains": [d.summary() for d in self.domains],
            "evaluations": evals + d_total,
            "distinct_nontrivial": distinct + d_total,
            "rule": "engine D: one obligation per (function, clause, path), distinct by id; engine B: cases distinct by canonical key, non-trivial by the per-domain rule in bounded_domains",
            "samples": samples,
            "exhaustive": bool(self.domains) and all(d.exhaustive for d in self.domains),
            "known_findings_printed": {k: v for k, v in self.known_hit.items()},
            "undecided": self.undecided,
            "notes": self.notes,
        }
        ev = {
            "property_id": self.pid,
            "tier": self.tier,
            "seed": int(self.seed),
            "level": level,
            "coverage": cov,
            "assumptions": self.assumptions,
            "wall_s": round(time.time() - self.t0, 2),
            "violations": len(self.violations),
        }
        if str(REPO) == "/repo":
            (VERIF / "evidence").mkdir(exist_ok=True)
            (VERIF / "evidence" / f"{self.pid}.json").write_text(json.dumps(ev, indent=1))
        else:
            # a run against a scratch tree (seeded change) must not overwrite the evidence of /repo
            (VERIF / ".scratch").mkdir(exist_ok=True)
            (VERIF / ".scratch" / f"evidence_{self.pid}_scratchtree.json").write_text(json.dumps(ev, indent=1))
        if self.violations:
            return 1
        if self.undecided:
            for u in self.undecided[:10]:
                print(f"UNDECIDED property={self.pid} obligation={u['obligation']} {u['why']}"[:400], flush=True)
            return 2
        if d_total + evals == 0:
            print(f"CHECKER-ERROR property={self.pid} zero obligations and zero cases")
            return 3
        print(
            f"OK property={self.pid} tier={self.tier} D:{d_ok}/{d_total} obligations discharged, "
            f"B:{evals} cases ({distinct} distinct non-trivial), known-findings:{len(self.known_hit)}, {ev['wall_s']}s",
            flush=True,
        )
        return 0


def assert_repo_import():
    import pydra.engine.state as s

    if not str(Path(s.__file__).resolve()).startswith(str(REPO)):
        raise CheckerError(f"pydra imported from {s.__file__}, not from {REPO}")
